"""Make a pytype checkout importable with its C++ typegraph built outside it (used by seeded/*/demo.py).

  ptboot.boot(worktree, extdir)   build (if needed) and import; sets TYPESHED_HOME to a minimal fixture
  ptboot.analyze(src, **options)  -> (pyi_text, [(error_name, line, message), ...])
"""
import os
import subprocess
import sys

HERE = os.path.dirname(os.path.abspath(__file__))
TYPESHED = os.path.join(HERE, "typeshed")


def _fixture():
  os.makedirs(os.path.join(TYPESHED, "stdlib"), exist_ok=True)
  os.makedirs(os.path.join(TYPESHED, "stubs"), exist_ok=True)
  os.makedirs(os.path.join(TYPESHED, "tests"), exist_ok=True)
  v = os.path.join(TYPESHED, "stdlib", "VERSIONS")
  if not os.path.exists(v):
    with open(v, "w") as f:
      f.write("builtins: 3.0-\ntyping: 3.0-\ncollections: 3.0-\nenum: 3.0-\n")
  x = os.path.join(TYPESHED, "tests", "pytype_exclude_list.txt")
  if not os.path.exists(x):
    open(x, "w").close()


def boot(worktree, extdir):
  worktree = os.path.realpath(worktree)
  subprocess.run([os.path.join(HERE, "build_ext.sh"), worktree, extdir], check=True)
  _fixture()
  os.environ["TYPESHED_HOME"] = TYPESHED
  sys.path.insert(0, worktree)
  import pytype.typegraph
  pytype.typegraph.__path__.append(extdir)
  from pytype.typegraph import cfg
  assert os.path.dirname(cfg.__file__) == os.path.realpath(extdir) or os.path.dirname(cfg.__file__) == extdir
  import pytype
  assert os.path.dirname(os.path.dirname(pytype.__file__)) == worktree, pytype.__file__
  return cfg


def analyze(src, **options):
  from pytype import config, io
  opts = config.Options.create(python_version=(3, 12), **options)
  ret, pyi = io.generate_pyi(src, opts)
  errs = [(e.name, e.line, e.message) for e in ret.context.errorlog.unique_sorted_errors()]
  return pyi, errs
