#!/bin/sh
# usage: build_ext.sh <pytype checkout> <output dir>   -- builds pytype/typegraph's C++ extension outside the checkout
set -e
SRC="$1/pytype/typegraph"; OUT="$2"; mkdir -p "$OUT"
[ -f "$OUT/cfg.cpython-312-x86_64-linux-gnu.so" ] && [ -z "$(find "$SRC" -name '*.cc' -newer "$OUT/cfg.cpython-312-x86_64-linux-gnu.so" -o -name '*.h' -newer "$OUT/cfg.cpython-312-x86_64-linux-gnu.so")" ] && exit 0
PB=$(/venv/bin/python -c 'import pybind11; print(pybind11.get_include())')
PY=$(/venv/bin/python -c 'import sysconfig; print(sysconfig.get_paths()["include"])')
for f in cfg cfg_logging pylogging reachable solver typegraph; do
  g++ -O2 -std=c++20 -fPIC -fvisibility=hidden -w -I"$SRC" -I"$PB" -I"$PY" -c "$SRC/$f.cc" -o "$OUT/$f.o" &
done
wait
for f in cfg cfg_logging pylogging reachable solver typegraph; do [ -f "$OUT/$f.o" ] || { echo "compile failed: $f" >&2; exit 1; }; done
g++ -shared "$OUT"/cfg.o "$OUT"/cfg_logging.o "$OUT"/pylogging.o "$OUT"/reachable.o "$OUT"/solver.o "$OUT"/typegraph.o -o "$OUT/cfg.cpython-312-x86_64-linux-gnu.so"
rm -f "$OUT"/*.o
