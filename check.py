#!/venv/bin/python
import os, sys
sys.path.insert(0, os.path.dirname(os.path.abspath(__file__)))
from vk import run
if __name__ == "__main__":
  sys.exit(run.main())
