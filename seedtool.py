#!/venv/bin/python
"""Verify a seeded change and run /verif checks against it (never touches /repo).

  seedtool.py verify <dir>            dir has patch.diff + demo.py: in a scratch worktree of /repo's HEAD,
                                      demo must pass, then with the patch demo must fail and the baseline
                                      suite must still give 171 passed.
  seedtool.py check <dir> <ID> [tier] apply patch in a scratch worktree and run ./check ID against it
                                      (VERIF_REPO); prints DETECTED / MISSED.
Scratch worktrees live under /tmp/seedwt_* and are removed afterwards.
"""
import json, os, re, subprocess, sys, tempfile, time, shutil

VERIF = os.path.dirname(os.path.abspath(__file__))
BASE = ["/venv/bin/python", "-m", "pytest", "-q", "-p", "no:cacheprovider", "--timeout=900",
        "--continue-on-collection-errors", "-x", "--co"]


def sh(cmd, **kw):
  return subprocess.run(cmd, capture_output=True, text=True, **kw)


def install_ptenv():
  """/tmp/ptenv (ptboot.py + build_ext.sh, used by every demo.py) is installed from tools/ptenv on demand."""
  if not os.path.exists("/tmp/ptenv/ptboot.py"):
    shutil.copytree(os.path.join(VERIF, "tools", "ptenv"), "/tmp/ptenv", dirs_exist_ok=True)


class Worktree:
  def __init__(self, patch=None):
    self.dir = tempfile.mkdtemp(prefix="seedwt_", dir="/tmp")
    os.rmdir(self.dir)
    r = sh(["git", "-C", "/repo", "worktree", "add", "--detach", self.dir, "HEAD"])
    assert r.returncode == 0, r.stderr
    self.ext = self.dir + "_ext"
    if patch:
      r = sh(["git", "-C", self.dir, "apply", "--whitespace=nowarn", patch])
      if r.returncode:
        r = sh(["git", "-C", self.dir, "apply", "--3way", "--whitespace=nowarn", patch])
      assert r.returncode == 0, "patch does not apply: " + r.stderr

  def build(self):
    install_ptenv()
    r = sh(["/tmp/ptenv/build_ext.sh", self.dir, self.ext])
    assert r.returncode == 0, r.stderr[-2000:]

  def close(self):
    sh(["git", "-C", "/repo", "worktree", "remove", "--force", self.dir])
    shutil.rmtree(self.ext, ignore_errors=True)
    shutil.rmtree(self.dir, ignore_errors=True)
    sh(["git", "-C", "/repo", "worktree", "prune"])


def run_demo(wt, demo):
  env = dict(os.environ, PYTHONHASHSEED="0")
  env.pop("PYTHONPATH", None)
  r = sh(["/venv/bin/python", "-W", "ignore", demo, wt.dir, wt.ext], env=env, timeout=1800)
  return r.returncode, (r.stdout + r.stderr)[-1500:]


def verify(d):
  d = os.path.abspath(d)
  patch, demo = os.path.join(d, "patch.diff"), os.path.join(d, "demo.py")
  out = {}
  wt = Worktree()
  try:
    wt.build()
    rc, txt = run_demo(wt, demo)
    out["demo_unpatched"] = {"rc": rc, "tail": txt[-400:]}
  finally:
    wt.close()
  wt = Worktree(patch)
  try:
    wt.build()
    rc, txt = run_demo(wt, demo)
    out["demo_patched"] = {"rc": rc, "tail": txt[-600:]}
    r = sh(["/venv/bin/python", "-m", "pytest", "-ra", "-q", "-p", "no:cacheprovider", "--timeout=900",
            "--continue-on-collection-errors"], cwd=wt.dir)
    m = re.search(r"(\d+) passed", r.stdout[-400:])
    out["baseline_passed"] = int(m.group(1)) if m else None
    out["baseline_tail"] = r.stdout.strip().splitlines()[-1] if r.stdout.strip() else ""
    out["baseline_failed"] = bool(re.search(r"\d+ failed", r.stdout[-400:]))
  finally:
    wt.close()
  out["ok"] = (out["demo_unpatched"]["rc"] == 0 and out["demo_patched"]["rc"] == 1
               and out["baseline_passed"] == 171 and not out["baseline_failed"])
  return out


def check(d, pid, tier="quick"):
  d = os.path.abspath(d)
  wt = Worktree(os.path.join(d, "patch.diff"))
  try:
    env = dict(os.environ, VERIF_REPO=wt.dir, VERIF_CONFIRM="1")
    t0 = time.time()
    r = sh([os.path.join(VERIF, "check"), pid, "--tier", tier], env=env, cwd=VERIF)
    txt = r.stdout + r.stderr
    viol = [l for l in txt.splitlines() if l.startswith("VIOLATION")]
    return {"check": pid, "tier": tier, "rc": r.returncode, "violations": len(viol),
            "first": viol[0][:400] if viol else "", "secs": round(time.time() - t0),
            "tail": "" if viol else txt[-600:], "detected": r.returncode == 1 and bool(viol)}
  finally:
    wt.close()


def collect(outroot="/tmp"):
  """Copies verified changes to /verif/seeded/<ID>-<k>/ with meta.json and writes seeded/SUMMARY.md."""
  sys.path.insert(0, os.path.join(VERIF, "tools"))
  try:
    from needs import NEEDS
  except ImportError:
    NEEDS = {}
  rows = []
  todo = [(pid, k, os.path.join(outroot, "out_" + pid, str(k)), "%s-%d" % (pid, k))
          for pid in ["C%02d" % i for i in range(1, 21)] for k in (1, 2, 3)]
  todo += [(pid, k, os.path.join(outroot, "out2_" + pid, str(k)), "%s-w2-%d" % (pid, k))
           for pid in ["C%02d" % i for i in range(1, 21)] for k in (1, 2)]
  for pid, k, src, name in todo:
      if not os.path.exists(os.path.join(src, "patch.diff")):
        continue
      dst = os.path.join(VERIF, "seeded", name)
      def load(fn):
        try:
          t = open(os.path.join(src, fn)).read()
          return json.loads(t[:t.rindex("}") + 1])
        except Exception:
          return None
      ver = load("verify.json")
      if not ver or not ver.get("ok"):
        print("skip (not verified):", name)
        continue
      os.makedirs(dst, exist_ok=True)
      for fn in ("patch.diff", "demo.py", "notes.md"):
        if os.path.exists(os.path.join(src, fn)):
          shutil.copy(os.path.join(src, fn), os.path.join(dst, fn))
      if os.path.exists(os.path.join(src, "patch.orig.diff")):
        shutil.copy(os.path.join(src, "patch.orig.diff"), os.path.join(dst, "patch.as_written.diff"))
      q, t = load("check_quick.json"), load("check_thorough.json")
      det = "quick" if q and q.get("detected") else "thorough" if t and t.get("detected") else "MISSED"
      by = pid
      if det == "MISSED":
        import glob
        for other in sorted(glob.glob(os.path.join(src, "check_quick_C*.json"))):
          o = load(os.path.basename(other))
          if o and o.get("detected"):
            det, q, by = "quick", o, o["check"]
            break
      meta = {
          "property": pid, "change": name,
          "needs_to_manifest": NEEDS.get(name, "see notes.md"),
          "written_by": "independent sub-agent given only the property text and a scratch worktree",
          "verified": {"command": "seedtool.py verify <dir>", "demo_exit_on_HEAD": ver["demo_unpatched"]["rc"],
                       "demo_exit_with_patch": ver["demo_patched"]["rc"], "baseline_tests_passed_with_patch": ver["baseline_passed"]},
          "detected_by": {"check": by, "tier": det,
                          "first_violation": (q if det == "quick" else t or {}).get("first", "")[:400] if det != "MISSED" else "",
                          "seconds": (q if det == "quick" else t or {}).get("secs")},
          "adapted": os.path.exists(os.path.join(src, "patch.orig.diff")) and "patch re-based onto a later fix: commit of /repo (patch.as_written.diff is the sub-agent's original)" or None,
      }
      with open(os.path.join(dst, "meta.json"), "w") as f:
        json.dump(meta, f, indent=1)
      rows.append((name, "%s %s" % (by, det), meta["needs_to_manifest"], meta["detected_by"]["first_violation"]))
  with open(os.path.join(VERIF, "seeded", "SUMMARY.md"), "w") as f:
    f.write("# Seeded changes and the checks that catch them\n\n| change | caught by (tier) | needs | first violation reported |\n|---|---|---|---|\n")
    for name, det, needs, first in rows:
      first = first.split("#", 1)[-1].strip().replace("|", "/")[:160]
      f.write("| %s | %s | %s | %s |\n" % (name, det, needs.replace("|", "/"), first))
  print("collected", len(rows), "missed:", [r[0] for r in rows if r[1].endswith("MISSED")])


def process3(pid, k, others=(), outroot="/tmp"):
  """Third wave: verify /tmp/out3_<pid>/<k>, run the quick check(s), store under seeded/<pid>-w3-<k>."""
  src = os.path.join(outroot, "out3_" + pid, str(k))
  name = "%s-w3-%s" % (pid, k)
  ver = verify(src)
  json.dump(ver, open(os.path.join(src, "verify.json"), "w"), indent=1)
  if not ver["ok"]:
    print("NOT VERIFIED", name, json.dumps(ver)[:1500])
    return
  res = None
  for c in (pid,) + tuple(others):
    fn = os.path.join(src, "check_quick_%s.json" % c)
    r = check(src, c, "quick")
    json.dump(r, open(fn, "w"), indent=1)
    print(name, c, "DETECTED" if r["detected"] else "MISSED", r["secs"], "s", r["first"][:300] or r["tail"][-300:])
    if r["detected"] and res is None:
      res = r
  store3(pid, k, outroot)


def store3(pid, k, outroot="/tmp"):
  import glob
  src = os.path.join(outroot, "out3_" + pid, str(k))
  name = "%s-w3-%s" % (pid, k)
  dst = os.path.join(VERIF, "seeded", name)
  os.makedirs(dst, exist_ok=True)
  for fn in ("patch.diff", "demo.py", "notes.md"):
    if os.path.exists(os.path.join(src, fn)):
      shutil.copy(os.path.join(src, fn), os.path.join(dst, fn))
  adapted = None
  if os.path.exists(os.path.join(src, "patch.orig.diff")):
    shutil.copy(os.path.join(src, "patch.orig.diff"), os.path.join(dst, "patch.as_written.diff"))
    adapted = "patch re-based onto a later fix: commit of /repo (patch.as_written.diff is the sub-agent's original)"
  ver = json.load(open(os.path.join(src, "verify.json")))
  needs = "see notes.md"
  try:
    for l in open(os.path.join(src, "notes.md")):
      if "NEEDS:" in l:
        needs = l.split("NEEDS:", 1)[1].strip().strip("*_` ")
        break
  except OSError:
    pass
  runs = [json.load(open(f)) for f in sorted(glob.glob(os.path.join(src, "check_*_C*.json")))]
  det = [r for r in runs if r.get("detected")]
  det.sort(key=lambda r: (r["check"] != pid, r["tier"] != "quick"))
  d = det[0] if det else None
  meta = {
      "property": pid, "change": name, "needs_to_manifest": needs,
      "written_by": "independent sub-agent given only the property text and a scratch worktree (third wave)",
      "verified": {"command": "seedtool.py verify <dir>", "demo_exit_on_HEAD": ver["demo_unpatched"]["rc"],
                   "demo_exit_with_patch": ver["demo_patched"]["rc"],
                   "baseline_tests_passed_with_patch": ver["baseline_passed"]},
      "detected_by": {"check": d["check"] if d else pid, "tier": d["tier"] if d else "MISSED",
                      "first_violation": d["first"][:400] if d else "", "seconds": d["secs"] if d else None},
      "runs": [{"check": r["check"], "tier": r["tier"], "detected": r["detected"], "seconds": r["secs"]} for r in runs],
      "adapted": adapted,
  }
  json.dump(meta, open(os.path.join(dst, "meta.json"), "w"), indent=1)
  summary()


def summary():
  """SUMMARY.md from the meta.json files under seeded/ (no dependence on scratch directories)."""
  import glob
  def order(d):
    n = os.path.basename(d)
    m = re.match(r"(C\d+)(?:-w(\d))?-(\d+)$", n)
    return (int(m.group(2) or 1), m.group(1), int(m.group(3))) if m else (9, n, 0)
  rows = []
  for d in sorted(glob.glob(os.path.join(VERIF, "seeded", "C*")), key=order):
    try:
      meta = json.load(open(os.path.join(d, "meta.json")))
    except OSError:
      continue
    db = meta["detected_by"]
    rows.append((meta["change"], "%s %s" % (db["check"], db["tier"]), meta["needs_to_manifest"], db["first_violation"]))
  with open(os.path.join(VERIF, "seeded", "SUMMARY.md"), "w") as f:
    f.write("# Seeded changes and the checks that catch them\n\n| change | caught by (tier) | needs | first violation reported |\n|---|---|---|---|\n")
    for name, det, needs, first in rows:
      first = first.split("#", 1)[-1].strip().replace("|", "/")[:160]
      f.write("| %s | %s | %s | %s |\n" % (name, det, needs.replace("|", "/"), first))
  print("summary:", len(rows), "missed:", [r[0] for r in rows if r[1].endswith("MISSED")])


if __name__ == "__main__":
  cmd = sys.argv[1]
  if cmd == "process3":
    process3(sys.argv[2], sys.argv[3], tuple(sys.argv[4:]))
    sys.exit(0)
  if cmd == "store3":
    store3(sys.argv[2], sys.argv[3])
    sys.exit(0)
  if cmd == "summary":
    summary()
    sys.exit(0)
  if cmd == "collect":
    collect()
    sys.exit(0)
  if cmd == "verify":
    print(json.dumps(verify(sys.argv[2]), indent=1))
  elif cmd == "check":
    res = check(sys.argv[2], sys.argv[3], *(sys.argv[4:5]))
    print(json.dumps(res, indent=1))
    print("DETECTED" if res["detected"] else "MISSED")
