#!/venv/bin/python
"""Verify a seeded change and run /verif checks against it (never touches /repo).

  seedtool.py verify <dir>            dir has patch.diff + demo.py: in a scratch worktree of /repo's HEAD,
                                      demo must pass, then with the patch demo must fail and the baseline
                                      suite must still give 171 passed.
  seedtool.py check <dir> <ID> [tier] apply patch in a scratch worktree and run ./check ID against it
                                      (VERIF_REPO); prints DETECTED / MISSED.
Scratch worktrees live under /tmp/seedwt_* and are removed afterwards.
"""
import json, os, re, subprocess, sys, tempfile, time, shutil

VERIF = os.path.dirname(os.path.abspath(__file__))
BASE = ["/venv/bin/python", "-m", "pytest", "-q", "-p", "no:cacheprovider", "--timeout=900",
        "--continue-on-collection-errors", "-x", "--co"]


def sh(cmd, **kw):
  return subprocess.run(cmd, capture_output=True, text=True, **kw)


class Worktree:
  def __init__(self, patch=None):
    self.dir = tempfile.mkdtemp(prefix="seedwt_", dir="/tmp")
    os.rmdir(self.dir)
    r = sh(["git", "-C", "/repo", "worktree", "add", "--detach", self.dir, "HEAD"])
    assert r.returncode == 0, r.stderr
    self.ext = self.dir + "_ext"
    if patch:
      r = sh(["git", "-C", self.dir, "apply", "--whitespace=nowarn", patch])
      if r.returncode:
        r = sh(["git", "-C", self.dir, "apply", "--3way", "--whitespace=nowarn", patch])
      assert r.returncode == 0, "patch does not apply: " + r.stderr

  def build(self):
    r = sh(["/tmp/ptenv/build_ext.sh", self.dir, self.ext])
    assert r.returncode == 0, r.stderr[-2000:]

  def close(self):
    sh(["git", "-C", "/repo", "worktree", "remove", "--force", self.dir])
    shutil.rmtree(self.ext, ignore_errors=True)
    shutil.rmtree(self.dir, ignore_errors=True)
    sh(["git", "-C", "/repo", "worktree", "prune"])


def run_demo(wt, demo):
  env = dict(os.environ, PYTHONHASHSEED="0")
  env.pop("PYTHONPATH", None)
  r = sh(["/venv/bin/python", "-W", "ignore", demo, wt.dir, wt.ext], env=env, timeout=1800)
  return r.returncode, (r.stdout + r.stderr)[-1500:]


def verify(d):
  patch, demo = os.path.join(d, "patch.diff"), os.path.join(d, "demo.py")
  out = {}
  wt = Worktree()
  try:
    wt.build()
    rc, txt = run_demo(wt, demo)
    out["demo_unpatched"] = {"rc": rc, "tail": txt[-400:]}
  finally:
    wt.close()
  wt = Worktree(patch)
  try:
    wt.build()
    rc, txt = run_demo(wt, demo)
    out["demo_patched"] = {"rc": rc, "tail": txt[-600:]}
    r = sh(["/venv/bin/python", "-m", "pytest", "-ra", "-q", "-p", "no:cacheprovider", "--timeout=900",
            "--continue-on-collection-errors"], cwd=wt.dir)
    m = re.search(r"(\d+) passed", r.stdout[-400:])
    out["baseline_passed"] = int(m.group(1)) if m else None
    out["baseline_tail"] = r.stdout.strip().splitlines()[-1] if r.stdout.strip() else ""
    out["baseline_failed"] = bool(re.search(r"\d+ failed", r.stdout[-400:]))
  finally:
    wt.close()
  out["ok"] = (out["demo_unpatched"]["rc"] == 0 and out["demo_patched"]["rc"] == 1
               and out["baseline_passed"] == 171 and not out["baseline_failed"])
  return out


def check(d, pid, tier="quick"):
  wt = Worktree(os.path.join(d, "patch.diff"))
  try:
    env = dict(os.environ, VERIF_REPO=wt.dir, VERIF_CONFIRM="1")
    t0 = time.time()
    r = sh([os.path.join(VERIF, "check"), pid, "--tier", tier], env=env, cwd=VERIF)
    txt = r.stdout + r.stderr
    viol = [l for l in txt.splitlines() if l.startswith("VIOLATION")]
    return {"check": pid, "tier": tier, "rc": r.returncode, "violations": len(viol),
            "first": viol[0][:400] if viol else "", "secs": round(time.time() - t0),
            "tail": "" if viol else txt[-600:], "detected": r.returncode == 1 and bool(viol)}
  finally:
    wt.close()


if __name__ == "__main__":
  cmd = sys.argv[1]
  if cmd == "verify":
    print(json.dumps(verify(sys.argv[2]), indent=1))
  elif cmd == "check":
    res = check(sys.argv[2], sys.argv[3], *(sys.argv[4:5]))
    print(json.dumps(res, indent=1))
    print("DETECTED" if res["detected"] else "MISSED")
