#!/opt/veriftools/pyvenv/bin/python
"""Generates MANIFEST.json from the table below (single source of truth)."""
import json, os, sys
HERE = os.path.dirname(os.path.abspath(__file__))
sys.path.insert(0, HERE)
from vk.manifest_table import CHECKS, NOT_APPLICABLE, HOOK_COMMITS

BASE = "cd /repo && /venv/bin/python -m pytest -ra -q -p no:cacheprovider --timeout=900 --continue-on-collection-errors"
m = {
  "version": 1,
  "setup_cmd": "cd /verif && /venv/bin/python -W ignore vk/boot.py",
  "hooks": {
    "guard": "PYTYPE_VERIF",
    "enable": "no source hooks are needed: checks drive public Python APIs of /repo's working tree (PYTHONPATH=/repo) and compile pytype/typegraph/*.cc from it into /verif/.build; PYTYPE_VERIF=1 is exported by the runner but nothing in /repo reads it",
    "baseline_off_cmd": BASE,
    "source_commits": HOOK_COMMITS,
    "add_only": True,
  },
  "engines": [
    {"name": "vk", "path": "/verif/vk", "serves_properties": [c["property_id"] for c in CHECKS],
     "kind_free_text": "hand-written bounded-exhaustive explorer (explicit-state BFS over the real objects, exhaustive input/program enumeration with reference models), Python, 16 worker processes"},
  ],
  "checks": [],
  "not_applicable": NOT_APPLICABLE,
  "notes": "Every check: ./check <ID> --tier quick|thorough; replay: ./check <ID> --replay <file>. Known findings: /verif/known_findings.json.",
}
for c in CHECKS:
  pid = c["property_id"]
  m["checks"].append({
    "property_id": pid,
    "quick_cmd": "./check %s --tier quick" % pid,
    "thorough_cmd": "./check %s --tier thorough" % pid,
    "evidence_file": "/verif/evidence/%s.json" % pid,
    "replay_cmd_template": "./check %s --replay {path}" % pid,
    "engine": "vk",
    "level_claimed": {"category": c["level"], "text": c["text"], "design_ref": "DESIGN.md §3 " + pid},
    "level_note": c["note"],
    "technique": c["technique"],
  })
json.dump(m, open(os.path.join(HERE, "MANIFEST.json"), "w"), indent=1)
import jsonschema
jsonschema.validate(m, json.load(open("/root/.vp/MANIFEST.schema.json")))
print("MANIFEST.json written:", len(m["checks"]), "checks,", len(NOT_APPLICABLE), "not applicable")
