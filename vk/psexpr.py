"""PS-expr: bounded spaces of expressions, match patterns and annotated statements.

PS-full (vk/psfull.py) enumerates statement *nestings*; this module enumerates what
sits inside one statement:

  expressions  every constructor of CONSTRUCTORS applied to every tuple of ATOMS
               (depth 1), and with one operand replaced by every depth-1 *display*
               (depth 2: displays inside displays / calls / subscripts / operators);
  patterns     every depth-1 pattern of PATTERNS and every container pattern of
               PCONTAINERS around every depth-1 pattern (depth 2), against every
               subject of SUBJECTS;
  annotations  every annotated-statement shape of ANN_FORMS in module, function and
               class context.

Everything is enumerated completely and deterministically; ids are stable
(`expr:<ctor>/<atom>,<atom>`, `pat:<subject>/<container>(<pattern>)`, ...).  Texts
CPython rejects are kept (the C15 oracle covers them); `compilable(src)` filters
for the checks that need compilable code.
"""

import itertools
import warnings

PRELUDE = (
    "import enum\n"
    'a, b, c = [1, 2], {"k": 1}, bool("x")\n'
    "class K:\n  x = 1\n  def __init__(self, p=0):\n    self.p = p\n"
    "class E(enum.Enum):\n  A = 1\n  B = 2\n"
    "def f(*args, **kw):\n  return args\n"
    "e = E.A\n"
)

# (name, text).  Chosen to collide: hashable / unhashable, iterable / not, mapping / not.
ATOMS = (
    ("int", "1"), ("str", "'s'"), ("bytes", "b'b'"), ("none", "None"), ("float", "2.5"),
    ("lst", "[1]"), ("dct", "{'k': 1}"), ("tup", "(1, 's')"), ("set", "{1}"), ("empty", "()"),
    ("na", "a"), ("nb", "b"), ("nc", "c"), ("cls", "K"), ("inst", "K()"), ("enum", "E.A"), ("fn", "f"),
)
_ATOM = dict(ATOMS)
CORE_ATOMS = ("int", "str", "none", "lst", "dct", "tup", "na", "nb", "enum")

# (name, arity, template, is_display).  {0} {1} {2} are operand holes.
CONSTRUCTORS = (
    ("list1", 1, "[{0}]", True), ("list2", 2, "[{0}, {1}]", True), ("liststar", 1, "[*{0}]", True),
    ("liststar2", 2, "[{0}, *{1}]", True), ("tuple1", 1, "({0},)", True), ("tuple2", 2, "({0}, {1})", True),
    ("tuplestar", 1, "(*{0},)", True), ("tuplestar2", 2, "({0}, *{1})", True),
    ("set1", 1, "{{{0}}}", True), ("set2", 2, "{{{0}, {1}}}", True), ("setstar", 1, "{{*{0}}}", True),
    ("dict1", 2, "{{{0}: {1}}}", True), ("dictstar", 1, "{{**{0}}}", True),
    ("dictstar2", 3, "{{{0}: {1}, **{2}}}", True), ("dict2", 3, "{{{0}: {1}, 'z': {2}}}", True),
    ("sub", 2, "{0}[{1}]", False), ("slice", 3, "{0}[{1}:{2}]", False), ("attr", 1, "{0}.x", False),
    ("call0", 1, "{0}()", False), ("call1", 2, "{0}({1})", False), ("callstar", 2, "{0}(*{1})", False),
    ("callkw", 2, "{0}(**{1})", False), ("callnamed", 2, "{0}(p={1})", False),
    ("add", 2, "{0} + {1}", False), ("mul", 2, "{0} * {1}", False), ("mod", 2, "{0} % {1}", False),
    ("neg", 1, "-{0}", False), ("inv", 1, "~{0}", False), ("not", 1, "not {0}", False),
    ("and", 2, "{0} and {1}", False), ("or", 2, "{0} or {1}", False), ("ifexp", 3, "{0} if {1} else {2}", False),
    ("lt", 2, "{0} < {1}", False), ("eq", 2, "{0} == {1}", False), ("in", 2, "{0} in {1}", False),
    ("is", 2, "{0} is {1}", False), ("chain", 3, "{0} < {1} < {2}", False),
    ("lambda", 1, "lambda q={0}: q", False), ("listcomp", 1, "[i for i in {0}]", False),
    ("dictcomp", 2, "{{i: {0} for i in {1}}}", False), ("setcomp", 1, "{{i for i in {0} if i}}", False),
    ("genexp", 1, "list(i for i in {0})", False), ("fstr", 1, 'f"{{{0}!r:>4}}"', False),
    ("walrus", 1, "(n := {0})", False), ("starcall", 2, "f({0}, *{1})", False),
    ("unpack", 1, "p, *q = {0}", None), ("unpack2", 1, "p, q = {0}", None), ("augadd", 1, "a += {0}", None),
    ("subassign", 2, "b[{0}] = {1}", None), ("delsub", 1, "del b[{0}]", None), ("withas", 1, "with {0} as w: pass", None),
    ("forin", 1, "for i in {0}: pass", None), ("raise", 1, "raise {0}", None), ("assertmsg", 2, "assert {0}, {1}", None),
)
_CTOR = {c[0]: c for c in CONSTRUCTORS}
DISPLAYS = tuple(c[0] for c in CONSTRUCTORS if c[3])


def _stmt(ctor, text):
  return text if _CTOR[ctor][3] is None else "x = " + text


def _wrap(ctx, stmt):
  if ctx == "mod":
    return PRELUDE + stmt + "\n"
  if ctx == "fn":
    return PRELUDE + "def g(a, b, c):\n  " + stmt + "\n  return a\n"
  raise KeyError(ctx)


def expressions(depth, core_only=False):
  """Yields (id, statement text)."""
  names = CORE_ATOMS if core_only else tuple(n for n, _ in ATOMS)
  for ctor, arity, tmpl, _ in CONSTRUCTORS:
    pool = names if arity < 3 else CORE_ATOMS
    for combo in itertools.product(pool, repeat=arity):
      yield "expr:%s/%s" % (ctor, ",".join(combo)), _stmt(ctor, tmpl.format(*(_ATOM[n] for n in combo)))
  if depth < 2:
    return
  # depth 2: one operand is a depth-1 display over core atoms, the others core atoms
  inner = []
  for d in DISPLAYS:
    _, ar, t, _ = _CTOR[d]
    for combo in itertools.product(CORE_ATOMS, repeat=ar) if ar < 3 else [("str", "int", "nb"), ("lst", "int", "na"), ("int", "lst", "nb")]:
      inner.append(("%s/%s" % (d, ",".join(combo)), t.format(*(_ATOM[n] for n in combo))))
  fill = ("int", "na", "str")
  for ctor, arity, tmpl, _ in CONSTRUCTORS:
    for pos in range(arity):
      for iid, itext in inner:
        for other in (fill[:1] if arity == 1 else fill if not core_only else fill[:2]):
          ops = [_ATOM[other]] * arity
          ops[pos] = itext
          yield "expr2:%s@%d(%s)/%s" % (ctor, pos, iid, other), _stmt(ctor, tmpl.format(*ops))
          if arity == 1:
            break


def const_displays():
  """Displays made of constants only: with >=3 elements CPython folds them into one tuple / frozenset constant
  (LIST_EXTEND / SET_UPDATE), which pytype's constant folder takes apart again; every 3-element list, set and tuple
  display over a menu of constants incl. the falsy and the nested ones, and 4-element ones over a smaller menu."""
  menu = ("()", "0", "''", "None", "(1,)", "1.5", "b''", "((), 0)")
  for kind, l, r in (("list", "[", "]"), ("set", "{", "}"), ("tuple", "(", ")")):
    for combo in itertools.product(range(len(menu)), repeat=3):
      yield "const:%s/%s" % (kind, "".join(map(str, combo))), "x = %s%s%s" % (l, ", ".join(menu[i] for i in combo), r)
    for combo in itertools.product(range(4), repeat=4):
      yield "const:%s4/%s" % (kind, "".join(map(str, combo))), "x = %s%s%s" % (l, ", ".join(menu[i] for i in combo), r)
  for combo in itertools.product(range(4), repeat=3):
    yield ("const:dict/%s" % "".join(map(str, combo)),
           "x = {%s}" % ", ".join("%d: %s" % (k, menu[i]) for k, i in enumerate(combo)))


# ---------------------------------------------------------------- patterns

SUBJECTS = (("na", "a"), ("nb", "b"), ("nc", "c"), ("int", "1"), ("inst", "K()"), ("enum", "e"), ("tup", "(1, 's')"), ("str", "'s'"))
PATTERNS = (
    ("lit1", "1"), ("lits", "'s'"), ("none", "None"), ("true", "True"), ("neg", "-1"), ("cplx", "1+2j"),
    ("cap", "p"), ("wild", "_"), ("valK", "K.x"), ("valE", "E.A"), ("valEB", "E.B"),
    ("seq0", "[]"), ("seq2", "[p, q]"), ("seqstar", "[p, *q]"), ("seqlit", "[1, *_]"), ("tup1", "(p,)"),
    ("map0", "{}"), ("maps", "{'k': p}"), ("mapi", "{1: p}"), ("mapE", "{E.A: p}"), ("mapK", "{K.x: p}"),
    ("maprest", "{'k': p, **q}"), ("mapnone", "{None: p}"),
    ("cls0", "K()"), ("clskw", "K(p=q)"), ("clsint", "int(p)"), ("clsstr", "str()"), ("clsE", "E()"),
    ("clslist", "list([p])"), ("clsdict", "dict(k=p)"),
    ("or", "1 | 2 | None"), ("orcap", "[p] | (p, _)"), ("as", "[p] as q"), ("oras", "(1 | 2) as p"),
)
PCONTAINERS = (
    ("seq", "[{0}, _]"), ("seqstar", "[{0}, *_]"), ("map", "{{'k': {0}}}"), ("cls", "K(p={0})"),
    ("or", "{0} | None"), ("as", "{0} as r"), ("guard", "{0} if c"),
)


def _match_src(ctx, subj, pattern):
  guard = ""
  if " if c" in pattern and pattern.endswith(" if c"):
    pattern, guard = pattern[:-5], " if c"
  body = "match %s:\n  case %s%s:\n    x = 1\n  case _:\n    x = 2\n" % (subj, pattern, guard)
  if ctx == "mod":
    return PRELUDE + body
  return PRELUDE + "def g(a, b, c, e):\n" + "".join("  " + ln + "\n" for ln in body.rstrip("\n").split("\n")) + "  return x\n"


def patterns(depth, subjects=None):
  """Yields (id, full source) — patterns are whole programs (module and function context)."""
  subs = [s for s in SUBJECTS if subjects is None or s[0] in subjects]
  for ctx in ("mod", "fn"):
    for sn, st in subs:
      for pn, pt_ in PATTERNS:
        yield "pat:%s:%s/%s" % (ctx, sn, pn), _match_src(ctx, st, pt_)
      if depth < 2:
        continue
      for cn, ct in PCONTAINERS:
        for pn, pt_ in PATTERNS:
          if cn == "or" and pn in ("cap", "wild"):
            continue  # irrefutable alternative first: SyntaxError family covered by one case below
          inner = "(%s)" % pt_ if (" | " in pt_ or " as " in pt_) and cn in ("or", "as", "guard") else pt_
          yield "pat2:%s:%s/%s(%s)" % (ctx, sn, cn, pn), _match_src(ctx, st, ct.format(inner))


# ---------------------------------------------------------------- annotated statements

ANN_TYPES = (("int", "int"), ("lst", "list[int]"), ("str", "'K'"), ("opt", "int | None"), ("ml", "dict[\n    str, int]"))
ANN_FORMS = (
    ("bare", "y: {T}"), ("val", "y: {T} = {V}"), ("semi", "y: {T}; z = 1"), ("semi2", "z = 1; y: {T}"),
    ("semival", "y: {T} = {V}; z = 1"), ("two", "y: {T}\nw: {T}"), ("attr", "K.x: {T} = {V}"),
    ("sub", "b['k']: {T} = {V}"), ("paren", "(y): {T} = {V}"), ("mlval", "y: {T} = (\n    {V})"),
    # characters that take more than one byte before / after the annotation on its line (byte vs character columns)
    ("u8semi", "s = 'h\u00e9\u4e2d'; y: {T}; z = 1"), ("u8astral", "s = '\U0001f600'; y: {T}; z = 1"),
    ("u8tail", "y: {T}; s = 'h\u00e9'"), ("u8name", "\u00e9: {T}; z = 1"),
    ("comment", "y: {T}  # trailing"), ("typecomment", "y = {V}  # type: {T1}"), ("cond", "if c: y: {T} = {V}"),
)
ANN_CTX = (("mod", "{S}\n"), ("fn", "def g(c, b):\n{I}\n  return 0\n"), ("cls", "class L:\n{I}\n"),
           ("meth", "class L:\n  def m(self, c, b):\n{II}\n    return 0\n"))


def annotations():
  for cn, ct in ANN_CTX:
    for fn_, ft in ANN_FORMS:
      for tn, tt in ANN_TYPES:
        for vn, vt in (("v1", "1"), ("vs", "[1]")):
          if "{V}" not in ft and vn != "v1":
            continue
          s = ft.replace("{T1}", tt.replace("\n    ", "")).replace("{T}", tt).replace("{V}", vt)
          body = (ct.replace("{S}", s)
                  .replace("{II}", "\n".join("    " + ln for ln in s.split("\n")))
                  .replace("{I}", "\n".join("  " + ln for ln in s.split("\n"))))
          yield "ann:%s/%s/%s/%s" % (cn, fn_, tn, vn), PRELUDE + body


# ---------------------------------------------------------------- annotated signatures

SIG_ANNS = (("int", "int"), ("other", "'Other'"), ("tv", "TB"), ("lst", "list[int]"), ("callable", "Callable[[int], str]"),
            ("undef", "Undefined"), ("fwd", "'Later'"), ("none", "None"), ("self", "'Host'"), ("union", "int | None"))
# (id, template with {A}); Host is the defining class, Other an unrelated class, TB a TypeVar bound to Other
SIG_FORMS = (
    ("fn_param", "def g(p: {A}):\n  return p\nr = g(1)\n"),
    ("fn_ret", "def g(p) -> {A}:\n  return p\nr = g(1)\n"),
    ("fn_kwonly", "def g(*, p: {A} = 1):\n  return p\nr = g()\n"),
    ("fn_star", "def g(*p: {A}, **q: {A}):\n  return p\nr = g(1, k=2)\n"),
    ("meth_self", "class Host:\n  def m(self: {A}):\n    return self\nr = Host().m()\n"),
    ("meth_self_uncalled", "class Host:\n  x = 1\n  def m(self: {A}, a=0):\n    return self.x\n"),
    ("meth_param", "class Host:\n  def m(self, p: {A}) -> {A}:\n    return p\nr = Host().m(1)\n"),
    ("cls_cls", "class Host:\n  @classmethod\n  def c(cls: {A}, p=0):\n    return cls\nr = Host.c()\n"),
    ("static", "class Host:\n  @staticmethod\n  def s(p: {A}):\n    return p\nr = Host.s(1)\n"),
    ("prop", "class Host:\n  @property\n  def p(self: {A}) -> {A}:\n    return self\nr = Host().p\n"),
    ("init", "class Host:\n  def __init__(self: {A}, v: {A} = None):\n    self.v = v\nr = Host()\n"),
    ("dunder", "class Host:\n  def __add__(self: {A}, o: {A}) -> {A}:\n    return o\nr = Host() + 1\n"),
    ("nested", "def outer():\n  def inner(p: {A}) -> {A}:\n    return p\n  return inner(1)\nr = outer()\n"),
    ("lambda_default", "def g(p: {A} = (lambda: 0)()):\n  return p\n"),
    ("var", "v: {A} = 1\nclass Host:\n  w: {A}\n"),
    ("mixin", "class Mixin:\n  def m(self: {A}):\n    return self.x\nclass Host(Mixin):\n  x = 1\nr = Host().m()\n"),
)
SIG_PRELUDE = ("from typing import Callable, TypeVar\n"
               "class Other:\n  y = 's'\n"
               "TB = TypeVar('TB', bound=Other)\n")
SIG_EPILOGUE = "class Later:\n  z = 1.5\n"


def signatures():
  """Yields (id, source): every signature form x every annotation."""
  for fid, ft in SIG_FORMS:
    for aid, at in SIG_ANNS:
      yield "sig:%s/%s" % (fid, aid), SIG_PRELUDE + ft.replace("{A}", at) + SIG_EPILOGUE


# ---------------------------------------------------------------- directive comments

# A fixed program with a multi-line call, an attribute error, a name error in a class body and a method;
# between its statements there are SLOTS for stand-alone comment lines, and three lines can carry a
# trailing comment.  Every assignment of the comment menu to the slots is a program.
DIR_LINES = [
    "def f(a, b=0):", "  return a",     # slot 0 before
    "x0 = f(0, 0, 0)",                  # single-line call (wrong-arg-count); trailing T3
    "x1 = f(", "    1)",                # slot 1 before; trailing T0 on first line, T1 on inner line
    "x2 = [].nope",                     # slot 2 before; trailing T2
    "x3 = f(2)",                        # slot 3 before
    "class K:", "  y = undefined_nm",   # slot 4 before
    "  def m(self):", "    return self.zz",   # slot 5 before (inside the class)
    "x4 = 1",                           # slot 6 before
]
DIR_SLOT_AT = {0: 0, 1: 3, 2: 5, 3: 6, 4: 7, 5: 9, 6: 11}   # slot -> index in DIR_LINES it precedes
DIR_TRAIL_AT = {0: 3, 1: 4, 2: 5, 3: 2}
DIR_MENU = {"-": None, "dA": "# pytype: disable=attribute-error", "eA": "# pytype: enable=attribute-error",
            "dN": "# pytype: disable=name-error", "eN": "# pytype: enable=name-error", "ig": "# type: ignore",
            "dC": "# pytype: disable=wrong-arg-count", "bad": "# pytype: disable=no-such-error-class"}


def directive_programs(tier):
  """Yields (id, source)."""
  if tier == "quick":
    slots, menu, trails = (1, 2, 3, 4, 6), ("-", "dA", "eA"), (
        ("-", "-", "-", "-"), ("dA", "-", "-", "-"), ("-", "dA", "-", "-"), ("-", "-", "ig", "-"), ("-", "-", "-", "dC"))
  else:
    slots, menu, trails = (1, 2, 3, 4, 6), ("-", "dA", "eA", "dN"), (
        ("-", "-", "-", "-"), ("dA", "-", "-", "-"), ("-", "dA", "-", "-"), ("-", "-", "ig", "-"), ("ig", "-", "dA", "-"),
        ("-", "bad", "-", "-"), ("-", "-", "-", "dC"), ("-", "-", "-", "ig"))
  for combo in itertools.product(menu, repeat=len(slots)):
    for tr in trails:
      lines = list(DIR_LINES)
      for t, m in enumerate(tr):
        if DIR_MENU[m]:
          lines[DIR_TRAIL_AT[t]] += "  " + DIR_MENU[m]
      out = []
      ins = {DIR_SLOT_AT[sl]: DIR_MENU[m] for sl, m in zip(slots, combo) if DIR_MENU[m]}
      for i, ln in enumerate(lines):
        if i in ins:
          out.append(ln[:len(ln) - len(ln.lstrip())] + ins[i])
        out.append(ln)
      yield "dir:%s/%s" % ("".join(m[0] if m == "-" else m for m in combo), ",".join(tr)), "\n".join(out) + "\n"


def expression_programs(depth, contexts=("mod", "fn"), core_only=False):
  for eid, stmt in expressions(depth, core_only):
    for ctx in contexts:
      yield eid + "@" + ctx, _wrap(ctx, stmt)


def compilable(src):
  try:
    with warnings.catch_warnings():
      warnings.simplefilter("ignore")
      compile(src, "<psexpr>", "exec", dont_inherit=True)
    return True
  except (SyntaxError, ValueError):
    return False


if __name__ == "__main__":
  import sys
  d = int(sys.argv[1]) if len(sys.argv) > 1 else 1
  ex = list(expression_programs(d))
  pa = list(patterns(d))
  an = list(annotations())
  print("expr", len(ex), "compilable", sum(compilable(s) for _, s in ex))
  print("pat", len(pa), "compilable", sum(compilable(s) for _, s in pa))
  print("ann", len(an), "compilable", sum(compilable(s) for _, s in an))
  print(ex[5][1][len(PRELUDE):], pa[40][1][len(PRELUDE):], an[30][1][len(PRELUDE):], sep="\n---\n")
