"""Runner: tiers, parallel map, evidence, replays, known findings."""

import hashlib
import importlib
import json
import multiprocessing
import os
import random
import subprocess
import sys
import time
import traceback

from vk import boot

VERIF = boot.VERIF
EVID = os.path.join(VERIF, "evidence")
if os.path.realpath(boot.REPO) != "/repo":
  # runs against a scratch checkout (seeded changes) never touch the committed evidence
  EVID = os.environ.get("VERIF_EVIDENCE_DIR") or os.path.join(VERIF, "scratch", "evidence_other_repo")
REPLAYS = os.path.join(VERIF, "replays" if os.path.realpath(boot.REPO) == "/repo" else "replays_other_repo")
KNOWN = os.path.join(VERIF, "known_findings.json")
NPROC = int(os.environ.get("VERIF_JOBS", "0")) or min(16, os.cpu_count() or 1)


def sha(s):
  if not isinstance(s, bytes):
    s = s.encode()
  return hashlib.sha1(s).hexdigest()[:16]


def jkey(obj):
  return sha(json.dumps(obj, sort_keys=True, default=str))


# ---------------------------------------------------------------- parallel map

_FN = None


def _call(args):
  i, item = args
  try:
    return i, _FN(item), None
  except BaseException:  # pylint: disable=broad-except
    return i, None, traceback.format_exc()


class Pool:
  """A fork pool bound to one worker function, reusable over many pmap calls."""

  def __init__(self, fn, procs=None, maxtasks=None):
    global _FN
    self.fn = fn
    self.procs = procs or NPROC
    self.pool = None
    if self.procs > 1:
      _FN = fn
      self.pool = multiprocessing.get_context("fork").Pool(self.procs, maxtasksperchild=maxtasks)

  def map(self, items, seed=0, chunksize=None, progress=None, shuffle=True, serial_below=0):
    items = list(items)
    order = list(range(len(items)))
    if shuffle:
      random.Random(seed).shuffle(order)
    if self.pool is None or len(items) <= max(1, serial_below):
      for i in order:
        yield items[i], self.fn(items[i])
      return
    if chunksize is None:
      chunksize = max(1, min(64, len(items) // (self.procs * 8) or 1))
    done = 0
    t0 = time.time()
    for i, res, err in self.pool.imap_unordered(
        _call, [(i, items[i]) for i in order], chunksize=chunksize):
      if err:
        self.pool.terminate()
        raise RuntimeError("worker failed on item %r:\n%s" % (items[i], err))
      done += 1
      if progress and done % progress == 0:
        print("  .. %d/%d (%.0fs)" % (done, len(items), time.time() - t0),
              file=sys.stderr, flush=True)
      yield items[i], res

  def close(self):
    if self.pool is not None:
      self.pool.terminate()
      self.pool.join()
      self.pool = None

  def __enter__(self):
    return self

  def __exit__(self, *a):
    self.close()


def pmap(fn, items, seed=0, procs=None, chunksize=None, maxtasks=None,
         progress=None, shuffle=True):
  """Apply fn to every item in worker processes; yields (item, result).

  The seed only permutes the order / assignment to workers, never the set.
  A worker exception is a framework error (raised), not a verdict.
  """
  items = list(items)
  if (procs or NPROC) <= 1 or len(items) <= 1:
    procs = 1
  with Pool(fn, procs=procs, maxtasks=maxtasks) as p:
    yield from p.map(items, seed=seed, chunksize=chunksize, progress=progress, shuffle=shuffle)


# ---------------------------------------------------------------- reports


class Report:
  """Accumulates what a run covered."""

  def __init__(self, pid, level):
    self.pid = pid
    self.level = level
    self.evaluations = 0
    self.nontrivial = set()
    self.nontrivial_extra = 0
    self.samples = []
    self.violations = []   # dicts: key, summary, case
    self.outcomes = {}
    self.cov = {}
    self.assumptions = []
    self.exhaustive = True
    self.caps = []
    self.rule = ""

  def outcome(self, name, n=1):
    self.outcomes[name] = self.outcomes.get(name, 0) + n

  def sample(self, s, limit=6):
    if len(self.samples) < limit:
      self.samples.append(s)

  def violation(self, key, summary, case):
    self.violations.append({"key": key, "summary": summary, "case": case})

  def cap(self, what):
    self.exhaustive = False
    self.caps.append(what)


def load_known():
  if not os.path.exists(KNOWN):
    return {"findings": [], "fixed": []}
  with open(KNOWN) as f:
    return json.load(f)


def write_evidence(rep, tier, seed, wall, nviol):
  cov = dict(rep.cov)
  cov.setdefault("evaluations", rep.evaluations)
  cov.setdefault("distinct_nontrivial", len(rep.nontrivial) + rep.nontrivial_extra)
  cov.setdefault("rule", rep.rule)
  cov["samples"] = rep.samples or ["(none recorded)"]
  cov["exhaustive"] = bool(rep.exhaustive)
  if rep.caps:
    cov["caps_hit"] = rep.caps
  cov["outcomes"] = rep.outcomes
  ev = {
      "property_id": rep.pid, "tier": tier, "seed": seed, "level": rep.level,
      "coverage": cov, "assumptions": rep.assumptions,
      "wall_s": round(wall, 2), "violations": nviol,
  }
  os.makedirs(EVID, exist_ok=True)
  tmp = os.path.join(EVID, rep.pid + ".json.tmp")
  with open(tmp, "w") as f:
    json.dump(ev, f, indent=1, sort_keys=True, default=str)
  os.replace(tmp, os.path.join(EVID, rep.pid + ".json"))
  return ev


def _confirm(pid, path):
  """Re-run one violation in a fresh process.  True iff it reproduces."""
  r = subprocess.run([sys.executable, "-W", "ignore", os.path.join(VERIF, "check.py"),
                      pid, "--replay", path], capture_output=True, text=True)
  return r.returncode == 1, (r.stdout + r.stderr)[-2000:]


def main(argv=None):
  argv = list(sys.argv[1:] if argv is None else argv)
  if not argv:
    print("usage: check <ID> [--tier quick|thorough] [--replay path]")
    return 2
  pid = argv[0].upper()
  tier = os.environ.get("VERIF_TIER") or "quick"
  replay = None
  i = 1
  while i < len(argv):
    if argv[i] == "--tier":
      tier = argv[i + 1]; i += 2
    elif argv[i] == "--replay":
      replay = argv[i + 1]; i += 2
    else:
      print("unknown arg", argv[i]); return 2
  seed = int(os.environ.get("VERIF_SEED", "0") or 0)
  mod = importlib.import_module("vk.checks." + pid.lower())
  asan = bool(getattr(mod, "ASAN", {}).get(tier)) and os.environ.get("VERIF_NO_ASAN") != "1"
  boot.ensure_env(asan=asan)
  if getattr(mod, "NEEDS_EXT", True):
    boot.load(asan=asan)
  known = load_known()
  # an entry names one failing input ("key") or, for one root cause with many failing inputs, each of
  # them ("keys"); anything not named is still a VIOLATION
  kf = {}
  for e in known.get("findings", []):
    for key in ([e["key"]] if "key" in e else []) + list(e.get("keys", [])):
      kf[(e["property"], key)] = e

  if replay:
    with open(replay) as f:
      case = json.load(f)
    if isinstance(case["case"], dict) and case["case"].get("aborted"):
      # the artefact is the traceback; replaying means running the tier again
      try:
        mod.run(Report(pid, mod.LEVEL), case["case"].get("tier", "quick"), seed)
        v = []
      except Exception:  # pylint: disable=broad-except
        v = [{"key": case["key"], "summary": traceback.format_exc().strip().splitlines()[-1][:200]}]
    else:
      v = mod.replay(case["case"])
    for x in v:
      print("REPLAY-VIOLATION property=%s key=%s %s" % (pid, x["key"], x["summary"]))
    if not v:
      print("replay: property held on this case")
    return 1 if v else 0

  t0 = time.time()
  rep = Report(pid, mod.LEVEL)
  try:
    mod.run(rep, tier, seed)
  except Exception:  # pylint: disable=broad-except
    # An exception raised inside the code under test (a frame in the checked repository) that a
    # check did not anticipate aborts the exploration: report it as a violation of the property
    # being explored (with the traceback as the replayable artefact), never as a silent pass.
    # An exception with no frame in the repository is a harness error (exit 2).
    tb = traceback.format_exc()
    inside = [ln.strip() for ln in tb.splitlines() if ln.strip().startswith('File "' + os.path.realpath(boot.REPO) + os.sep)]
    if not inside:
      print(tb)
      print("FRAMEWORK-ERROR property=%s: the check raised outside the code under test" % pid)
      return 2
    rep.cap("exploration aborted by an exception raised in the code under test")
    last = tb.strip().splitlines()[-1][:200]
    rep.violation(sha("aborted|" + inside[-1].split(", in ")[-1] + "|" + last.split(":")[0]),
                  "exploration aborted: %s (raised at %s)" % (last, inside[-1]),
                  {"aborted": True, "tier": tier, "traceback": tb[-6000:]})
  wall = time.time() - t0

  new, seen = [], set()
  grouped = {}
  for v in rep.violations:
    if v["key"] in seen:
      continue
    seen.add(v["key"])
    if (pid, v["key"]) in kf:
      e = kf[(pid, v["key"])]
      if "keys" in e:
        grouped.setdefault(id(e), [e, []])[1].append(v["key"])
      else:
        print("KNOWN-FINDING: property=%s %s [%s]" % (pid, e["what"], v["key"]))
    else:
      new.append(v)
  for e, keys in grouped.values():
    print("KNOWN-FINDING: property=%s %s [%d of the %d listed inputs observed, e.g. %s]" % (
        pid, e["what"], len(keys), len(e["keys"]), keys[0]))
  # listed findings that no longer show up are reported (not an error)
  for (p, k), e in kf.items():
    if "keys" in e:
      continue
    if p == pid and k not in seen and e.get("tier", "quick") in (tier, "quick") and rep.exhaustive:
      print("note: listed finding %s no longer observed (%s)" % (k, e["what"]))

  rc = 0
  if new:
    os.makedirs(os.path.join(REPLAYS, pid), exist_ok=True)
    confirm_n = int(os.environ.get("VERIF_CONFIRM", "3"))
    for n, v in enumerate(new[:40]):
      path = os.path.join(REPLAYS, pid, v["key"] + ".json")
      with open(path, "w") as f:
        json.dump({"property": pid, "key": v["key"], "summary": v["summary"],
                   "case": v["case"],
                   "how": "./check %s --replay %s" % (pid, path)}, f, indent=1, default=str)
      if n < confirm_n and getattr(mod, "CONFIRM", True) and not (isinstance(v["case"], dict) and v["case"].get("aborted")):
        ok, out = _confirm(pid, path)
        if not ok:
          print("FRAMEWORK-ERROR property=%s: violation %s did not reproduce in a fresh process\n%s"
                % (pid, v["key"], out))
          write_evidence(rep, tier, seed, wall, len(new))
          return 2
      if n < 25:
        print("VIOLATION property=%s replay=%s  # %s" % (pid, path, v["summary"]))
    if len(new) > 25:
      print("... %d further violations (replay files for the first 40)" % (len(new) - 25))
    rc = 1
  ev = write_evidence(rep, tier, seed, wall, len(new))
  c = ev["coverage"]
  print("%s tier=%s seed=%d level=%s evaluations=%s nontrivial=%s states=%s transitions=%s "
        "exhaustive=%s wall=%.1fs outcomes=%s" % (
            pid, tier, seed, rep.level, c.get("evaluations"), c.get("distinct_nontrivial"),
            c.get("states"), c.get("transitions"), c["exhaustive"], wall,
            json.dumps(rep.outcomes, sort_keys=True)[:400]))
  if len(rep.outcomes) < 2 and not getattr(mod, "SINGLE_OUTCOME_OK", False):
    print("FRAMEWORK-ERROR property=%s: fewer than two distinct outcomes observed (vacuous run)" % pid)
    return 2
  return rc


def isolated(fn, arg):
  """Runs fn(arg) in a forked child so that any in-process mutation of shared
  state (e.g. pytype's process-wide builtins cache) dies with the child."""
  import pickle
  r, w = os.pipe()
  pid = os.fork()
  if pid == 0:
    code = 0
    try:
      os.close(r)
      try:
        out = (fn(arg), None)
      except BaseException:  # pylint: disable=broad-except
        out = (None, traceback.format_exc())
      with os.fdopen(w, "wb") as f:
        pickle.dump(out, f)
    except BaseException:  # pylint: disable=broad-except
      code = 1
    os._exit(code)
  os.close(w)
  with os.fdopen(r, "rb") as f:
    data = f.read()
  os.waitpid(pid, 0)
  out, err = pickle.loads(data)
  if err:
    raise RuntimeError("isolated call failed:\n" + err)
  return out
