"""Bootstrap: make /repo's pytype importable with a freshly built C++ typegraph.

Nothing is written into /repo.  The extension is compiled from /repo's current
working tree into /verif/.build/cfg-<content hash>[-asan]/ and made importable by
appending that directory to pytype.typegraph.__path__.
"""

import hashlib
import os
import subprocess
import sys
import sysconfig
import concurrent.futures

VERIF = os.path.dirname(os.path.dirname(os.path.abspath(__file__)))
REPO = os.environ.get("VERIF_REPO", "/repo")
BUILD = os.path.join(VERIF, ".build")
TYPESHED = os.path.join(VERIF, "fixtures", "typeshed")
CC_FILES = ["cfg", "cfg_logging", "pylogging", "reachable", "solver", "typegraph"]
GUARD = "PYTYPE_VERIF"


def _pybind_include():
  import pybind11  # in /venv
  return pybind11.get_include()


def _flags(asan):
  base = ["-std=c++20", "-fPIC", "-fvisibility=hidden", "-w"]
  if asan:
    return base + ["-O1", "-g", "-fsanitize=address,undefined",
                   "-fno-omit-frame-pointer"]
  return base + ["-O2"]


def _src_hash(asan):
  h = hashlib.sha256()
  d = os.path.join(REPO, "pytype", "typegraph")
  for fn in sorted(os.listdir(d)):
    if fn.endswith((".cc", ".h")) and "_test" not in fn:
      h.update(fn.encode())
      with open(os.path.join(d, fn), "rb") as f:
        h.update(f.read())
  h.update(" ".join(_flags(asan)).encode())
  h.update(sys.version.encode())
  return h.hexdigest()[:16]


def build_ext(asan=False, quiet=True):
  """Build (or reuse) the typegraph extension; returns its directory."""
  tag = _src_hash(asan)
  out = os.path.join(BUILD, "cfg-%s%s" % (tag, "-asan" if asan else ""))
  so = os.path.join(out, "cfg" + sysconfig.get_config_var("EXT_SUFFIX"))
  if os.path.exists(so):
    return out
  os.makedirs(out, exist_ok=True)
  tmp = out + ".tmp.%d" % os.getpid()
  os.makedirs(tmp, exist_ok=True)
  src = os.path.join(REPO, "pytype", "typegraph")
  inc = ["-I" + src, "-I" + _pybind_include(),
         "-I" + sysconfig.get_paths()["include"]]
  flags = _flags(asan)

  def cc(name):
    cmd = ["g++"] + flags + inc + ["-c", os.path.join(src, name + ".cc"),
                                   "-o", os.path.join(tmp, name + ".o")]
    r = subprocess.run(cmd, capture_output=True, text=True)
    if r.returncode:
      raise RuntimeError("compile failed: %s\n%s" % (" ".join(cmd), r.stderr))

  with concurrent.futures.ThreadPoolExecutor(6) as ex:
    list(ex.map(cc, CC_FILES))
  link = ["g++", "-shared"] + (["-fsanitize=address,undefined"] if asan else [])
  link += [os.path.join(tmp, n + ".o") for n in CC_FILES]
  link += ["-o", os.path.join(tmp, os.path.basename(so))]
  r = subprocess.run(link, capture_output=True, text=True)
  if r.returncode:
    raise RuntimeError("link failed: %s" % r.stderr)
  os.replace(os.path.join(tmp, os.path.basename(so)), so)
  subprocess.run(["rm", "-rf", tmp])
  # prune older builds of the same flavour (keep the 12 newest)
  fl = [d for d in os.listdir(BUILD)
        if d.startswith("cfg-") and d.endswith("-asan") == asan
        and ".tmp." not in d]
  fl.sort(key=lambda d: os.path.getmtime(os.path.join(BUILD, d)))
  for d in fl[:-12]:
    if os.path.join(BUILD, d) != out:
      subprocess.run(["rm", "-rf", os.path.join(BUILD, d)])
  if not quiet:
    print("built", so)
  return out


def asan_preload():
  a = subprocess.check_output(["gcc", "-print-file-name=libasan.so"], text=True).strip()
  u = subprocess.check_output(["gcc", "-print-file-name=libubsan.so"], text=True).strip()
  return a + " " + u


def _fixture():
  os.makedirs(os.path.join(TYPESHED, "stubs"), exist_ok=True)  # git keeps no empty dirs


def ensure_env(asan=False):
  """Re-exec the current process with the environment checks need.

  PYTHONHASHSEED=0 (determinism), PYTHONPATH=/repo, TYPESHED_HOME=fixture,
  guard variable on, and for asan the LD_PRELOAD of the sanitizer runtimes.
  """
  _fixture()
  want = {
      "PYTHONHASHSEED": os.environ.get("VERIF_HASHSEED", "0"),
      "TYPESHED_HOME": TYPESHED,
      GUARD: "1",
  }
  if asan:
    want["LD_PRELOAD"] = asan_preload()
    want["ASAN_OPTIONS"] = "detect_leaks=0:abort_on_error=1"
    want["UBSAN_OPTIONS"] = "halt_on_error=1:print_stacktrace=1"
  changed = False
  for k, v in want.items():
    if os.environ.get(k) != v:
      os.environ[k] = v
      changed = True
  pp = os.environ.get("PYTHONPATH", "").split(os.pathsep)
  need = [REPO, VERIF]
  if pp[:2] != need:
    os.environ["PYTHONPATH"] = os.pathsep.join(need + [p for p in pp if p and p not in need])
    changed = True
  if changed and os.environ.get("VERIF_REEXEC") != "1":
    os.environ["VERIF_REEXEC"] = "1"
    os.execve(sys.executable, [sys.executable, "-W", "ignore"] + sys.argv, os.environ)
  os.environ.pop("VERIF_REEXEC", None)


_loaded = None


def load(asan=False):
  """Import pytype with the extension; idempotent.  Returns the cfg module."""
  global _loaded
  if _loaded is not None:
    return _loaded
  d = build_ext(asan=asan)
  _fixture()
  if REPO not in sys.path:
    sys.path.insert(0, REPO)
  os.environ.setdefault("TYPESHED_HOME", TYPESHED)
  import pytype.typegraph
  if d not in pytype.typegraph.__path__:
    pytype.typegraph.__path__.append(d)
  from pytype.typegraph import cfg
  assert os.path.dirname(cfg.__file__) == d, cfg.__file__
  import pytype
  assert os.path.dirname(os.path.dirname(pytype.__file__)) == os.path.realpath(REPO), pytype.__file__
  _loaded = cfg
  return cfg


if __name__ == "__main__":
  print(build_ext(asan="--asan" in sys.argv, quiet=False))
