"""PS-core: the loop-free program alphabet and its exhaustive enumerators.

A program = PRELUDE + a sequence of statements. Each statement is a template
instantiated with a target name T and (if it reads one) a source name S, both
from {x, y}.  Sequences are enumerated completely up to a length; a statement
that reads S is only placed after a statement that (possibly) binds S.

c0/c1 are opaque to pytype (results of comparing input() strings) but concrete
at run time: the harness answers input() so that CPython takes every one of the
four branch combinations while the analysed text stays identical.
"""

import itertools
import hashlib

PRELUDE = '''\
c0 = input() == 'y'
c1 = input() == 'y'
class A:
  def __init__(self, v=0):
    self.v = v
  def m(self):
    return self.v
class B(A):
  def m(self):
    return 'b'
  def n(self):
    return 1.5
class C:
  w = 'cw'
  def m(self):
    return None
def ident(a):
  return a
def pick(a, b=None):
  if a:
    return a
  return b
'''

PRELUDE_NAMES = ("c0", "c1", "A", "B", "C", "ident", "pick")

# (template, core?) — W templates write T and read nothing.
W = [
    ("{T} = 1", 1),
    ("{T} = 'a'", 1),
    ("{T} = None", 1),
    ("{T} = 1.5", 1),
    ("{T} = True", 0),
    ("{T} = b'b'", 0),
    ("{T} = 1j", 0),
    ("{T} = [1, 2]", 1),
    ("{T} = [1, 'a']", 1),
    ("{T} = []", 1),
    ("{T} = {{'k': 1}}", 1),
    ("{T} = {{}}", 0),
    ("{T} = (1, 'a')", 1),
    ("{T} = ()", 0),
    ("{T} = {{1, 2}}", 0),
    ("{T} = [[1], ['a']]", 0),
    ("{T} = {{'k': [1, None]}}", 1),
    ("{T} = (1, (2.0, 'a'))", 0),
    ("{T} = [1, 2.5, None, 'a', b'b', (), [], {{}}]", 0),   # 8 element types: union collapse
    ("if c1:\n  {T} = 1\nelse:\n  {T} = 'a'", 1),
    ("if c0:\n  {T} = [1]\nelif c1:\n  {T} = None\nelse:\n  {T} = (1,)", 1),
    ("{T} = 0\nif c0:\n  {T} = 'z'", 1),
    ("{T} = 1 if c1 else None", 1),
    ("{T} = c1 and 'a'", 1),
    ("{T} = c0 or [1]", 1),
    ("{T} = not c1", 0),
    ("{T} = (c0 and 1) or (c1 and 'a') or None", 0),
    ("{T} = A()", 1),
    ("{T} = A('s')", 1),
    ("{T} = B()", 1),
    ("{T} = C()", 0),
    ("{T} = A if c1 else B", 1),
    ("{T} = A if c1 else C", 0),
    ("{T} = (B if c0 else A)()", 1),
    ("{T} = (C if c0 else A)()", 0),
    ("{T} = ident(1)", 1),
    ("{T} = ident('a')", 0),
    ("{T} = ident", 0),
    ("{T} = pick(c1, 'a')", 1),
    ("{T} = pick(0, 2.5)", 0),
    ("{T} = pick([], {{}})", 0),
    ("{T} = len('abc')", 0),
    ("{T} = str(1)", 0),
    ("{T} = int('3')", 0),
    ("{T} = abs(-2.5)", 0),
    ("{T} = sorted([3, 1])", 0),
    ("{T} = list('ab')", 0),
    ("{T} = {{'k': 1}}.get('k')", 1),
    ("{T} = {{'k': 1}}.get('z', 'd')", 0),
    ("{T} = max(1, 2.5)", 0),
    ("{T} = divmod(7, 2)", 0),
    ("{T} = 'a,b'.split(',')", 0),
    ("{T} = dict(a=1)", 0),
    ("{T} = tuple([1, 'a'])", 0),
    ("{T} = [1, 2][0]", 0),
    ("{T} = (1, 'a')[1]", 1),
    ("{T} = {{'k': 1.5}}['k']", 0),
    ("{T} = 'abc'[0]", 0),
    ("{T} = [1, 'a'][0:1]", 0),
    ("{T} = (1, 'a', 2.5)[1:]", 0),
    ("{T} = A().m()", 1),
    ("{T} = B().m()", 0),
    ("{T} = B('q').v", 1),
    ("{T} = C().w", 0),
    ("{T} = B().n()", 0),
    ("{T} = A(None).m()", 0),
    ("{T} = (lambda a: a)(1)", 0),
    ("{T} = (lambda: 'a')()", 0),
    ("{T} = lambda a: a", 0),
    ("def f(a, b=2):\n  return b if a else 'n'\n{T} = f(c1)", 1),
    ("def f(a, b=2):\n  return b if a else 'n'\n{T} = f(0, [1])", 0),
    ("def g():\n  if c0:\n    return 1\n  return None\n{T} = g()", 1),
    ("def h(*a, **k):\n  return a, k\n{T} = h(1, 'a', z=2.5)", 0),
    ("def h2(a):\n  if isinstance(a, int):\n    return 'i'\n  return a\n{T} = h2(1 if c1 else 2.5)", 0),
    ("{T} = [i for i in [1, 2]]", 0),
    ("{T} = {{k: v for k, v in [('a', 1)]}}", 0),
    ("{T} = {{s for s in 'ab'}}", 0),
    ("{T} = [str(i) for i in (1, 2)]", 0),
    ("{T} = [i if c1 else None for i in (1, 2)]", 0),
    ("try:\n  {T} = int('q')\nexcept ValueError:\n  {T} = None", 1),
    ("try:\n  {T} = int('1')\nexcept ValueError:\n  {T} = 'e'", 0),
    ("try:\n  {T} = [1][5]\nexcept IndexError as e:\n  {T} = e.args", 0),
    ("{T} = 0\ntry:\n  {T} = 'a'\n  int('q')\n  {T} = 2.5\nexcept ValueError:\n  pass", 1),
    ("try:\n  {T} = 1\nfinally:\n  pass", 0),
    ("class K:\n  def __init__(self):\n    self.a = 1\n    self.b = 'b' if c1 else None\n{T} = K()", 1),
    ("class K:\n  a = 1\n  def set(self):\n    self.a = 'a'\n    return self\n{T} = K().set() if c0 else K()", 0),
    ("class D(B, C):\n  pass\n{T} = D().m()", 1),
    ("class D(B, C):\n  pass\n{T} = D().w", 0),
    ("class E(C, A):\n  pass\n{T} = E().m()", 0),
    ("class E(C, A):\n  pass\n{T} = E().v", 0),
    ("class F(A):\n  def __init__(self):\n    A.__init__(self, 'f')\n    self.u = [self.v]\n{T} = F()", 0),
    ("{T} = A()\n{T}.v = 'late'", 1),
    ("{T} = A()\n{T}.extra = 1.5", 0),
    ("{T} = 1\n{T} += 1.5", 0),
    ("{T} = [1]\n{T} += ['a']", 0),
    ("{T} = [1]\n{T}.append('a')", 1),
    ("{T} = {{}}\n{T}['k'] = 1", 0),
    ("{T}, _u = 1, 'a'", 0),
    ("{T} = _v = [None]", 0),
    ("{T} = 1\ndel {T}", 0),
    # equal-valued constants of different types (nested, so that only the inner element types differ)
    ("{T} = ((1, 2),)", 1),
    ("{T} = ((1.0, 2.0),)", 1),
    ("{T} = (1, 2.0)", 0),
    ("{T} = (1.0, 2)", 0),
    ("{T} = [(True, 0), (1, False)]", 0),
    ("{T} = {{'k': (1, 2)}}", 0),
    ("{T} = {{'k': (1.0, 2.0)}}", 0),
    # set displays of >=3 constants are compiled to a frozenset constant: equal-valued, differently typed
    ("{T} = {{1, 2, 3}}", 1),
    ("{T} = {{1.0, 2.0, 3.0}}", 1),
    ("{T} = {{0, 1, 2}}", 0),
    ("{T} = {{True, False, 2}}", 0),
    ("{T} = [_e for _e in {{1.0, 2.0, 3.0}}]", 0),
    # an attribute set back to an earlier value between calls of a method that reads it
    ("_o = A(1)\n_r1 = _o.m()\n_o.v = 'late'\n{T} = _o.m()\n_o.v = 1\n_r3 = _o.m()", 0),
    # a global set back to an earlier value between calls of a function that reads it
    ("_g = 1\ndef _mk():\n  return _g\n_q1 = _mk()\n_g = b'changed'\n{T} = _mk()\n_g = 1\n_q3 = _mk()", 0),
]

# R templates read S (and write T).
R = [
    ("{T} = {S}", 1),
    ("{T} = [{S}]", 1),
    ("{T} = ({S}, 1)", 1),
    ("{T} = {{'k': {S}}}", 0),
    ("{T} = {S} if c1 else 0", 1),
    ("{T} = {S} or 'd'", 1),
    ("{T} = {S} and 1", 0),
    ("{T} = ident({S})", 1),
    ("{T} = pick({S}, 'z')", 1),
    ("{T} = str({S})", 0),
    ("{T} = [{S}, None]", 0),
    ("{T} = {S} is None", 0),
    ("if {S} is None:\n  {T} = 0\nelse:\n  {T} = {S}", 1),
    ("if {S} is not None:\n  {T} = {S}\nelse:\n  {T} = 'none'", 0),
    ("if isinstance({S}, int):\n  {T} = {S}\nelse:\n  {T} = 'n'", 1),
    ("if isinstance({S}, (str, list)):\n  {T} = {S}\nelse:\n  {T} = None", 1),
    ("if not isinstance({S}, A):\n  {T} = {S}\nelse:\n  {T} = {S}.v", 0),
    ("{T} = A({S})", 1),
    ("{T} = A({S}).v", 1),
    ("{T} = A({S}).m()", 0),
    ("if {S}:\n  {T} = {S}\nelse:\n  {T} = -1", 1),
    ("{T} = not {S}", 0),
    ("{T} = (lambda a: [a])({S})", 0),
    ("{T} = {{'k': {S}}}.get('k')", 0),
    ("{T} = type({S})", 1),
    ("{T} = isinstance({S}, str)", 0),
    ("{T} = [{S}][0]", 0),
    ("{T} = ({S}, 'a')[0]", 1),
    ("{T} = {S} == 1", 0),
    ("try:\n  {T} = {S} + 1\nexcept TypeError:\n  {T} = 'te'", 1),
    ("try:\n  {T} = len({S})\nexcept TypeError:\n  {T} = -1", 0),
    ("try:\n  {T} = {S}.v\nexcept AttributeError:\n  {T} = None", 1),
    ("try:\n  {T} = {S}[0]\nexcept (TypeError, IndexError, KeyError):\n  {T} = None", 0),
    ("def k(a=[{S}]):\n  return a\n{T} = k()", 0),
    ("{T} = [{S}] if c0 else ({S},)", 0),
    ("{T} = {S}\n{S} = 'reassigned'", 0),
    ("del {S}\n{T} = 1", 0),
    # class tests whose tuple spec has a member that is only known at run time, in each position
    ("_k = A if c1 else C\nif isinstance({S}, (_k, int)):\n  {T} = {S}\nelse:\n  {T} = None", 1),
    ("_k = A if c1 else C\nif isinstance({S}, (str, _k, list)):\n  {T} = {S}\nelse:\n  {T} = 0", 0),
    ("_k = A if c1 else C\nif isinstance({S}, (int, _k)):\n  {T} = {S}\nelse:\n  {T} = None", 0),
    ("_k = A if c1 else C\n{T} = type({S})\nif issubclass({T}, (_k, int, str)):\n  {T} = {S}", 0),
    # in-place mutation of a container whose contents pytype knows, then a constant subscript
    ("try:\n  {S}.reverse()\n  {T} = {S}[0]\nexcept (AttributeError, TypeError, IndexError, KeyError):\n  {T} = None", 1),
    ("try:\n  {S}.pop()\n  {T} = {S}[-1]\nexcept (AttributeError, TypeError, IndexError, KeyError):\n  {T} = None", 0),
    ("try:\n  {S}.insert(0, None)\n  {T} = {S}[1]\nexcept (AttributeError, TypeError, IndexError, KeyError):\n  {T} = None", 0),
    ("try:\n  {S}.remove(1)\n  {T} = {S}[0]\nexcept (AttributeError, TypeError, IndexError, KeyError, ValueError):\n  {T} = None", 0),
    ("try:\n  {S}.sort(key=str)\n  {T} = {S}[0]\nexcept (AttributeError, TypeError, IndexError, KeyError):\n  {T} = None", 0),
    ("try:\n  {S}.extend(['z'])\n  {T} = {S}[-1]\nexcept (AttributeError, TypeError, IndexError, KeyError):\n  {T} = None", 0),
    ("try:\n  {S}[0] = None\n  {T} = {S}[0]\nexcept (AttributeError, TypeError, IndexError, KeyError):\n  {T} = 0", 0),
    ("try:\n  del {S}[0]\n  {T} = {S}[0]\nexcept (AttributeError, TypeError, IndexError, KeyError):\n  {T} = None", 0),
    ("try:\n  {S} += [None]\n  {T} = {S}[-1]\nexcept (AttributeError, TypeError, IndexError, KeyError):\n  {T} = 0", 0),
    ("try:\n  {S}.update({{'k': 'v'}})\n  {T} = {S}['k']\nexcept (AttributeError, TypeError, IndexError, KeyError, ValueError):\n  {T} = None", 0),
    ("try:\n  {S}.pop('k')\n  {T} = {S}.get('k')\nexcept (AttributeError, TypeError, IndexError, KeyError):\n  {T} = 0", 0),
    ("try:\n  {S}.clear()\n  {T} = {S}\nexcept (AttributeError, TypeError):\n  {T} = None", 0),
]


def pid(text):
  return hashlib.sha1(text.encode()).hexdigest()[:16]


def _inst(tpl, T, S=None):
  return tpl.format(T=T, S=S)


def statements(core_only):
  """Yields (text, reads, writes) for every instantiation over names x, y."""
  out = []
  for tpl, core in W:
    if core_only and not core:
      continue
    for T in ("x", "y"):
      out.append((_inst(tpl, T), None, T))
  for tpl, core in R:
    if core_only and not core:
      continue
    for T in ("x", "y"):
      for S in ("x", "y"):
        out.append((_inst(tpl, T, S), S, T))
  return out


def sequences(length, core_only):
  """All statement sequences of exactly `length`; reads only of names written earlier.

  The first statement's target is fixed to x (x/y are symmetric).
  """
  sts = statements(core_only)

  def rec(prefix, bound):
    if len(prefix) == length:
      yield tuple(prefix)
      return
    for text, reads, writes in sts:
      if not prefix and writes != "x":
        continue
      if reads is not None and reads not in bound:
        continue
      yield from rec(prefix + [text], bound | {writes})
  yield from rec([], frozenset())


def program(seq):
  return PRELUDE + "\n".join(seq) + "\n"


def programs(tier):
  """The PS-core program set of a tier: list of (id, source, seq)."""
  seqs = []
  if tier == "quick":
    seqs += list(sequences(1, False))
    seqs += list(sequences(2, True))
  elif tier == "smoke":
    seqs += list(sequences(1, False))
  else:
    seqs += list(sequences(1, False))
    seqs += list(sequences(2, False))
  out = []
  seen = set()
  for s in seqs:
    src = program(s)
    i = pid(src)
    if i not in seen:
      seen.add(i)
      out.append((i, src, s))
  return out


# Join-heavy bodies placed after k branch statements, so that the CFG nodes of the joins get every
# alignment relative to the 64-node words of the reachability matrix.
PAD_BODIES = [
    "if c0:\n  x = 1\nelse:\n  x = 'a'\ny = x",
    "x = A()\nif c1:\n  x.v = 'late'\nelse:\n  x = B('q')\ny = x.v",
    "x = None\nif c0:\n  x = [1]\nif c1:\n  y = x\nelse:\n  y = (x, 1.5)",
]
PAD_STMT = "if c1:\n  _p{i} = {i}\nelse:\n  _p{i} = None"


def padded_programs(tier):
  """(id, source, None): each body after k padding branches, k = 0..K."""
  kmax = 45 if tier == "quick" else 90
  out = []
  for b, body in enumerate(PAD_BODIES if tier != "quick" else PAD_BODIES[:2]):
    for k in range(kmax + 1):
      src = PRELUDE + "".join(PAD_STMT.replace("{i}", str(i)) + "\n" for i in range(k)) + body + "\n"
      out.append(("pad:%d/%d" % (b, k), src, None))
  return out


COND_ANSWERS = [("n", "n"), ("n", "y"), ("y", "n"), ("y", "y")]


def execute(src, answers):
  """Runs src under CPython with input() answering `answers` in turn.

  Returns (namespace, exception or None, line of the raising statement or None).
  """
  feed = list(answers)
  ns = {"input": lambda *a: feed.pop(0), "__name__": "__vk_prog__"}
  try:
    code = compile(src, "<prog>", "exec")
    exec(code, ns)  # pylint: disable=exec-used
    return ns, None, None
  except BaseException as e:  # pylint: disable=broad-except
    tb = e.__traceback__
    line = None
    while tb is not None:
      if tb.tb_frame.f_code.co_filename == "<prog>" and tb.tb_frame.f_code.co_name == "<module>":
        line = tb.tb_lineno
      tb = tb.tb_next
    return ns, e, line
