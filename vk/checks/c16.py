"""C16: every compiled code object becomes a well-formed ordered block graph.

Enumerated (completely, no sampling): every code object of every PS-full program
up to the tier's depth (vk/psfull.py) and of every CPython 3.12 stdlib source
file of the tier's corpus.  Each source goes through the real pipeline
pyc.compile_src -> blocks.process_code (no VM) and every OrderedCode in the
result is checked by an independent re-computation from the opcode stream
(index/next/prev/target/block_target and the class flags does_jump, no_next,
has_known_jump - never the splitter's own tables) and from CPython's own `dis`
of the same code object:

  (a) blocks of `order` are non-empty, hold stream instructions, no instruction twice
  (b) only a block's last instruction jumps or ends the flow; no instruction but
      the first is anybody's `target`; a block is a consecutive run of the stream
  (c) a jumping last instruction's target, a falling-through last instruction's
      successor and a last instruction's block_target each start a block of
      `order` that is in the block's `outgoing`
  (d) every has_known_jump instruction (and every instruction CPython's dis lists
      as a jump) has a target, inside the stream
  (e) prev/next links give one stream with ops[i].index == i, links mutually consistent
  (f) order[0] holds the first instruction; order == blocks reachable over
      `outgoing`, no duplicates; each later block has an `incoming` predecessor
      earlier in the order; incoming mirrors outgoing
  (g) every instruction reachable over {fall-through, jump target, block_target}
      is in some block of `order`
  (h) the stream minus pytype's pseudo-ops is CPython's instruction stream, and
      every jump's target is the instruction at the offset dis reports
  (x) the pipeline returns (no exception, no hang) on every compilable source

Scoping (DESIGN C16): a SETUP_EXCEPT_311 target is not a jump for (c)/(g); code
objects containing SEND/END_ASYNC_FOR are exempt from "consecutive" in (b) and
from (g), and three documented artefacts of that surgery are tolerated in them.

Violations are grouped by signature (clause + message without numbers); each
signature is one finding, witnessed by the smallest input that shows it.
"""

import dis
import glob
import os
import re
import signal
import types
import warnings

from vk import boot, psfull, run as vrun

ID = "C16"
LEVEL = "exploration"
NEEDS_EXT = True     # pytype.typegraph.cfg_utils imports the C++ cfg module

PYVER = (3, 12)
OTHER_VERSIONS = [(3, 11)]   # the only other interpreter pytype finds on PATH in this image
HORIZON = 90         # s per source (the largest stdlib file needs about 2 s); no result by then = violation (x)
_SLOW = [False]      # set by the first time-out in this process: later sources get 5 s, their work item stops
STDLIB = os.environ.get("VERIF_STDLIB", "/root/.pyenv/versions/3.12.1/lib/python3.12")

_PSEUDO = ("SETUP_EXCEPT_311", "POP_BLOCK")       # inserted by pytype, absent from 3.12 bytecode
_SURGERY = ("SEND", "END_ASYNC_FOR")              # DESIGN C16 scoping decision 2
_CP_JUMPS = frozenset(dis.hasjrel) | frozenset(dis.hasjabs)
_NUM = re.compile(r"(?<![\w])-?\d+\b|\bNone\b")


# ------------------------------------------------------------------ the oracle


def _cpython_stream(pycode):
  """[(offset, opname, jump target offset or None)] of real instructions.

  EXTENDED_ARG prefixes are folded into the instruction they extend, which then
  starts at the first prefix (that is where CPython's jumps land); CACHE entries
  are skipped (dis does that by default).
  """
  out = []
  start = None
  for ins in dis.get_instructions(pycode):
    if ins.opname == "EXTENDED_ARG":
      if start is None:
        start = ins.offset
      continue
    off = ins.offset if start is None else start
    start = None
    out.append((off, ins.opname, ins.argval if ins.opcode in _CP_JUMPS else None))
  return out


def _name(op):
  return type(op).__name__


def check_code(oc, pycode, st):
  """All clause violations of one OrderedCode; st collects measurements."""
  bad = []

  def v(clause, msg):
    # (signature, message): the signature is the message without its numbers, so one defect
    # showing up in many inputs is one finding (with its smallest input as witness)
    if len(bad) < 12:
      bad.append(("(%s) %s" % (clause, _NUM.sub("N", msg)), "(%s) %s: %s" % (clause, oc.name, msg)))

  order = list(oc.order)
  st["code_objects"] = st.get("code_objects", 0) + 1
  if not order or any(not b.code for b in order):
    v("a", "empty order or empty block (%d blocks)" % len(order))
    return bad

  # (e) the stream, recovered by following prev to the start and next to the end
  first = order[0].code[0]
  guard = set()
  head = first
  while head.prev is not None and id(head) not in guard:
    guard.add(id(head))
    head = head.prev
  if head.prev is not None:
    v("e", "prev links form a cycle")
    return bad
  ops = []
  guard = set()
  cur = head
  while cur is not None and id(cur) not in guard:
    guard.add(id(cur))
    ops.append(cur)
    cur = cur.next
  if cur is not None:
    v("e", "next links form a cycle")
    return bad
  pos = {id(op): i for i, op in enumerate(ops)}
  for i, op in enumerate(ops):
    if op.index != i:
      v("e", "instruction #%d (%s) has index %r" % (i, _name(op), op.index))
      break
  for i, op in enumerate(ops):
    nxt = ops[i + 1] if i + 1 < len(ops) else None
    if op.next is not nxt or (nxt is not None and nxt.prev is not op):
      v("e", "next/prev links inconsistent at #%d (%s)" % (i, _name(op)))
      break
  if first is not ops[0]:
    v("f", "order[0] starts at #%d (%s), not at the first instruction" % (pos[id(first)], _name(first)))
  st["instructions"] = st.get("instructions", 0) + len(ops)

  names = [_name(op) for op in ops]
  surgery = any(n in _SURGERY for n in names)
  npseudo = sum(1 for n in names if n in _PSEUDO)
  if surgery:
    st["co_surgery"] = st.get("co_surgery", 0) + 1
  if npseudo:
    st["co_pseudo"] = st.get("co_pseudo", 0) + 1
    st["pseudo_ops"] = st.get("pseudo_ops", 0) + npseudo

  # (h) the stream is CPython's instruction stream (+ pseudo-ops) and every
  #     jump resolves to the instruction CPython's dis says it jumps to
  real = [op for op in ops if _name(op) not in _PSEUDO]
  cp = _cpython_stream(pycode) if pycode is not None else None
  if cp is None:
    pass   # another target version: the host's dis is not the reference for the stream
  elif [_name(op) for op in real] != [n for _, n, _ in cp]:
    k = next((i for i, (a, b) in enumerate(zip(real, cp)) if _name(a) != b[1]), min(len(real), len(cp)))
    v("h", "stream differs from CPython's at real instruction %d (%d vs %d instructions)" % (k, len(real), len(cp)))
  else:
    at = {off: op for op, (off, _, _) in zip(real, cp)}
    for op, (off, n, tgt) in zip(real, cp):
      if tgt is None:
        continue
      st["jumps"] = st.get("jumps", 0) + 1
      want = at.get(tgt)
      if op.target is None:
        v("d", "%s #%d (offset %d) has no target" % (n, op.index, off))
      elif op.target is not want:
        # async-for surgery retargets jumps to a removed JUMP_BACKWARD onto the END_ASYNC_FOR
        # it was merged with (blocks._remove_jmp_to_get_anext_and_merge); only that is tolerated
        if (surgery and want is not None and _name(want) == "JUMP_BACKWARD"
            and getattr(want, "end_async_for_target", None) is op.target):
          st["retargeted"] = st.get("retargeted", 0) + 1
          continue
        v("h", "%s #%d (offset %d) targets #%s %s but CPython jumps to offset %s (#%s)" % (
            n, op.index, off, pos.get(id(op.target)), _name(op.target), tgt,
            want.index if want is not None else None))

  # (d) every instruction with a known jump has a target, inside the stream
  for op in ops:
    if op.has_known_jump():
      if op.target is None:
        v("d", "%s #%d has a known jump but no target" % (_name(op), op.index))
      elif id(op.target) not in pos:
        v("d", "%s #%d targets an instruction outside the stream" % (_name(op), op.index))

  # (a) blocks non-empty (checked above), members of the stream, pairwise disjoint
  owner = {}
  dups = set()
  for b in order:
    for op in b.code:
      if id(op) not in pos:
        v("a", "block %s holds an instruction (%s) that is not in the stream" % (b.id, _name(op)))
        return bad
      if id(op) in owner:
        v("a", "instruction #%d %s occurs twice (blocks %s and %s)" % (op.index, _name(op), owner[id(op)].id, b.id))
        dups.add(id(op))
      owner[id(op)] = b
  st["blocks"] = st.get("blocks", 0) + len(order)
  starts = {}      # first instruction -> blocks starting there (one, unless (a) already fired)
  for b in order:
    starts.setdefault(id(b.code[0]), []).append(b)

  # (b) basic-block property
  all_targets = {id(op.target) for op in ops if op.target is not None}
  for b in order:
    for k, op in enumerate(b.code):
      last = k == len(b.code) - 1
      if not last and (op.does_jump() or op.no_next()):
        # the one documented exception: the await/yield-from block keeps the CLEANUP_THROW that
        # follows its JUMP_BACKWARD_NO_INTERRUPT (blocks._preprocess_async_for_and_yield)
        if not (surgery and _name(op) == "JUMP_BACKWARD_NO_INTERRUPT"
                and k == len(b.code) - 2 and _name(b.code[-1]) == "CLEANUP_THROW"):
          v("b", "%s #%d jumps or ends the flow in the middle of block %s" % (_name(op), op.index, b.id))
      if k and id(op) in all_targets and id(op) not in dups:   # a duplicate is (a)'s finding, not a second one
        if not (surgery and _name(op) == "GET_ANEXT"):
          v("b", "%s #%d is a jump target in the middle of block %s" % (_name(op), op.index, b.id))
      if k and not surgery and pos[id(op)] != pos[id(b.code[k - 1])] + 1:
        v("b", "block %s is not consecutive at #%d" % (b.id, op.index))

  # (c) jump, fall-through and block_target edges
  for b in order:
    out = set(map(id, b.outgoing))
    for op in b.code:
      if op.does_jump() and op.target is not None:
        tb = starts.get(id(op.target))
        if tb is None:
          v("c", "target #%s of %s #%d does not start a block of the order" % (pos.get(id(op.target)), _name(op), op.index))
        elif op is b.code[-1] and not any(id(t) in out for t in tb):
          v("c", "block %s lacks the edge to its jump target block %s" % (b.id, tb[0].id))
    last = b.code[-1]
    if not last.no_next():
      nb = starts.get(id(last.next)) if last.next is not None else None
      if last.next is None:
        v("c", "block %s falls off the end of the code (%s)" % (b.id, _name(last)))
      elif nb is None:
        if not (surgery and id(last.next) not in owner):
          v("c", "fall-through successor #%d of block %s does not start a block of the order" % (last.next.index, b.id))
      elif not any(id(t) in out for t in nb):
        v("c", "block %s lacks the fall-through edge to block %s" % (b.id, nb[0].id))
    if last.block_target is not None:
      tb = starts.get(id(last.block_target))
      if tb is None:
        v("c", "block_target #%s of block %s does not start a block of the order" % (pos.get(id(last.block_target)), b.id))
      elif not any(id(t) in out for t in tb):
        v("c", "block %s lacks the edge to its block_target block %s" % (b.id, tb[0].id))

  # (f) order = blocks reachable from the entry over `outgoing`, once each,
  #     each after one of its predecessors; incoming mirrors outgoing
  ids = [id(b) for b in order]
  if len(set(ids)) != len(ids):
    v("f", "a block is listed twice in the order")
  inorder = set(ids)
  seen = {id(order[0])}
  todo = [order[0]]
  while todo:
    x = todo.pop()
    for y in x.outgoing:
      if id(y) not in seen:
        seen.add(id(y))
        todo.append(y)
  if seen != inorder:
    v("f", "order has %d blocks, %d reachable from the entry (%d reachable missing, %d unreachable listed)" % (
        len(inorder), len(seen), len(seen - inorder), len(inorder - seen)))
  placed = set()
  for n, b in enumerate(order):
    if n and not any(id(p) in placed for p in b.incoming):
      v("f", "block %s is scheduled before all of its predecessors" % b.id)
    placed.add(id(b))
    for y in b.outgoing:
      if b not in y.incoming:
        v("f", "edge %s->%s missing from incoming" % (b.id, y.id))
    for p in b.incoming:
      if b not in p.outgoing:
        v("f", "edge %s->%s missing from outgoing" % (p.id, b.id))

  # (g) instruction-level reachability over fall-through, jump target, block_target
  if not surgery:
    reach = {id(ops[0])}
    todo = [ops[0]]
    while todo:
      op = todo.pop()
      succ = []
      if not op.no_next() and op.next is not None:
        succ.append(op.next)
      if op.does_jump() and op.target is not None:
        succ.append(op.target)
      if op.block_target is not None:
        succ.append(op.block_target)
      for s in succ:
        if id(s) in pos and id(s) not in reach:
          reach.add(id(s))
          todo.append(s)
    miss = [op for op in ops if id(op) in reach and id(op) not in owner]
    if miss:
      v("g", "%d reachable instruction(s) in no block of the order, first #%d %s" % (len(miss), miss[0].index, _name(miss[0])))
    st["reachable_instructions"] = st.get("reachable_instructions", 0) + len(reach)
    handlers = [op.target for op in ops if _name(op) == "SETUP_EXCEPT_311" and op.target is not None]
    absent = sum(1 for h in handlers if id(h) not in owner)
    if absent:
      st["handlers_absent"] = st.get("handlers_absent", 0) + absent

  if len(order) > 1:
    st["co_multiblock"] = st.get("co_multiblock", 0) + 1
  return bad


_EXE = {}


def _python_exe(pyver):
  """An interpreter of the target version: pytype's own lookup, resolved to the real binary.

  (pytype would find `python3.11` on PATH; here that is a pyenv shell shim costing ~1 s per call,
  so the shim is resolved once to the binary it would exec.)
  """
  if pyver not in _EXE:
    import shutil
    import subprocess
    from pytype.pyc import compiler
    try:
      exe = compiler.get_python_executable(pyver)
    except Exception:  # pylint: disable=broad-except
      exe = None
    if exe:
      try:
        real = subprocess.run(exe + ["-c", "import sys; print(sys.executable)"], capture_output=True, text=True,
                              timeout=60).stdout.strip()
        if real and os.path.exists(real):
          exe = [os.path.realpath(real)]
      except Exception:  # pylint: disable=broad-except
        pass
    _EXE[pyver] = exe
  return _EXE[pyver]


class NoTermination(Exception):
  pass


def _on_alarm(signum, frame):
  raise NoTermination("no block graph within the horizon")


def check_source(src, filename, st, pyver=None):
  """Run the real pipeline on one source; returns the list of violations (strings).

  pyver other than the host's: the source is compiled by that interpreter (pytype's own
  compile path for other target versions); clause (h) (comparison with the host's dis) is skipped.
  """
  pyver = pyver or PYVER
  boot.load()
  from pytype.blocks import blocks
  from pytype.pyc import pyc
  with warnings.catch_warnings():
    warnings.simplefilter("ignore")
    try:
      pycode = compile(src, filename, "exec", dont_inherit=True)
    except (SyntaxError, ValueError, RecursionError, MemoryError):
      st["not_compilable"] = st.get("not_compilable", 0) + 1
      return None
    old = signal.signal(signal.SIGALRM, _on_alarm)
    signal.setitimer(signal.ITIMER_REAL, 5 if _SLOW[0] else HORIZON)
    try:
      try:
        code = pyc.compile_src(src, filename, pyver, _python_exe(pyver))
        oc, _ = blocks.process_code(code)
      finally:
        signal.setitimer(signal.ITIMER_REAL, 0)
    except Exception as e:  # pylint: disable=broad-except
      if isinstance(e, NoTermination):
        _SLOW[0] = True
        st["timeouts"] = st.get("timeouts", 0) + 1
      return [("(x) pipeline raised %s" % type(e).__name__,
               "(x) pipeline raised %s: %s" % (type(e).__name__, str(e)[:160]))]
    finally:
      signal.signal(signal.SIGALRM, old)
  bad = []
  if pyver != PYVER:
    pycode = None
  todo = [(oc, pycode)]
  while todo:
    o, p = todo.pop()
    bad += check_code(o, p, st)
    kids = [(i, c) for i, c in enumerate(o.consts) if isinstance(c, blocks.OrderedCode)]
    if p is None:
      todo += [(c, None) for _, c in kids]
      continue
    pk = [i for i, c in enumerate(p.co_consts) if isinstance(c, types.CodeType)]
    if [i for i, _ in kids] != pk:
      bad.append(("(h) nested code objects differ from CPython's",
                  "(h) %s: nested code objects at consts %s, CPython has %s" % (o.name, [i for i, _ in kids], pk)))
      continue
    todo += [(c, p.co_consts[i]) for i, c in kids]
  return bad


# ------------------------------------------------------------------ the spaces


def corpus(tier):
  root = STDLIB
  files = sorted(glob.glob(os.path.join(root, "**", "*.py"), recursive=True))
  if tier == "quick":
    skip = ("/site-packages/", "/test/", "/tests/", "/idle_test/", "/lib2to3/")
    files = [f for f in files if not any(s in f for s in skip)]
  return files


def _read(path):
  with open(path, "rb") as f:
    data = f.read()
  import io, tokenize
  try:
    enc, _ = tokenize.detect_encoding(io.BytesIO(data).readline)
    return data.decode(enc)
  except (SyntaxError, UnicodeDecodeError, LookupError):
    return None


def _merge(tot, st):
  for k, val in st.items():
    if isinstance(val, dict):
      d = tot.setdefault(k, {})
      for kk, vv in val.items():
        d[kk] = d.get(kk, 0) + vv
    else:
      tot[k] = tot.get(k, 0) + val


def _note(sigs, bad, size, case):
  """sigs: signature -> [inputs showing it, (size, case id) of the smallest, its message]."""
  for sig in sorted({sg for sg, _ in bad}):
    msg = next(m for sg, m in bad if sg == sig)
    ent = sigs.get(sig)
    wit = (size, case.get("id") or case.get("path"))
    if ent is None:
      if len(sigs) < 300:
        sigs[sig] = [1, wit, case, msg]
    else:
      ent[0] += 1
      if wit < ent[1]:
        ent[1:] = [wit, case, msg]


def work(item):
  kind = item[0]
  st = {}
  sigs = {}
  if kind == "ps":
    _, depth, bucket = item[:3]
    pyver = tuple(item[3]) if len(item) > 3 else None
    gen = {}
    for pid, src in psfull.programs(depth, bucket=tuple(bucket), stats=gen):
      bad = check_source(src, pid, st, pyver)
      if pyver:
        st["programs_other_target_versions"] = st.get("programs_other_target_versions", 0) + 1
        if bad and any("pipeline raised CompileError" in b[0] for b in bad):
          # the other interpreter rejects syntax the host accepts (match, except*, ...): not a block-graph case
          st["rejected_by_other_interpreter"] = st.get("rejected_by_other_interpreter", 0) + 1
          continue
      st["programs"] = st.get("programs", 0) + 1
      if bad:
        st["bad_inputs"] = st.get("bad_inputs", 0) + 1
        _note(sigs, bad, len(src), {"kind": "ps", "id": pid, "pyver": list(pyver) if pyver else None})
        if st.get("timeouts"):
          st["items_cut_short"] = 1
          break
    st["ps_candidates"] = gen.get("candidates", 0)
    st["ps_rejected"] = gen.get("rejected", 0)
  else:
    for path in item[1]:
      src = _read(path)
      st["files"] = st.get("files", 0) + 1
      if src is None:
        st["not_decodable"] = st.get("not_decodable", 0) + 1
        continue
      bad = check_source(src, path, st)
      if bad is None:
        continue
      st["files_checked"] = st.get("files_checked", 0) + 1
      if bad:
        st["bad_inputs"] = st.get("bad_inputs", 0) + 1
        _note(sigs, bad, len(src), {"kind": "file", "path": os.path.relpath(path, STDLIB)})
        if st.get("timeouts"):
          st["items_cut_short"] = 1
          break
  return st, sigs


def sig_key(sig):
  return vrun.jkey({"signature": sig})


def run(rep, tier, seed):
  boot.load()
  depth = 2 if tier == "quick" else 3
  files = corpus(tier)
  # chunks of ~8 files, the big ones spread out; the seed permutes item order only
  items = [("ps", depth, list(b)) for b in psfull.buckets(depth)]
  # other target versions (compiled by that interpreter, the path pytype takes for --python-version)
  for ver in OTHER_VERSIONS:
    if not _python_exe(ver):     # resolved once here, inherited by the forked workers
      rep.cap("no interpreter for target version %s.%s found: that part of the space is not covered" % ver)
      continue
    if tier == "quick":
      items += [("ps", 2, list(b), list(ver)) for b in psfull.buckets(2, contexts=("afn",))
                if b[1] is not None and b[1][0] in ("asyncfor", "asyncwith", "tryfull", "with", "whileelse")]
      items += [("ps", 1, list(b), list(ver)) for b in psfull.buckets(1)]
    else:
      items += [("ps", 2, list(b), list(ver)) for b in psfull.buckets(2)]
  files_by_size = sorted(files, key=lambda f: (-os.path.getsize(f), f))
  nchunk = max(1, len(files) // 8)
  items += [("files", files_by_size[i::nchunk]) for i in range(nchunk)]
  tot = {}
  sigs = {}
  for _, (st, found) in vrun.pmap(work, items, seed=seed, chunksize=1):
    _merge(tot, st)
    for sig, (n, wit, case, msg) in found.items():
      ent = sigs.get(sig)
      if ent is None:
        sigs[sig] = [n, tuple(wit), case, msg]
      else:
        ent[0] += n
        if tuple(wit) < ent[1]:
          ent[1:] = [tuple(wit), case, msg]
  # one violation per signature, witnessed by its smallest input; smallest witnesses first
  for sig, (n, wit, case, msg) in sorted(sigs.items(), key=lambda kv: (kv[1][1], kv[0])):
    rep.violation(sig_key(sig), "%s [%d input(s); smallest: %s] %s" % (sig, n, wit[1], msg),
                  dict(case, signature=sig, inputs=n, message=msg))
  g = tot.get
  if g("items_cut_short"):
    rep.cap("%d work item(s) stopped at their first source without a block graph within the horizon" % g("items_cut_short"))
  rep.evaluations = g("code_objects", 0)
  rep.nontrivial_extra = g("co_multiblock", 0)
  rep.outcome("code_objects_single_block", g("code_objects", 0) - g("co_multiblock", 0))
  rep.outcome("code_objects_multi_block", g("co_multiblock", 0))
  rep.outcome("code_objects_with_pseudo_ops", g("co_pseudo", 0))
  rep.outcome("code_objects_async_surgery_scoped", g("co_surgery", 0))
  rep.outcome("handlers_legitimately_absent", g("handlers_absent", 0))
  rep.outcome("inputs_violating", g("bad_inputs", 0))
  rep.cov.update({
      "bounds": {"psfull_depth": depth, "psfull_contexts": list(psfull.CONTEXTS),
                 "psfull_holes": len(psfull.HOLES), "psfull_terminals": len(psfull.TERMINALS),
                 "corpus": STDLIB + ("/**/*.py" if tier != "quick" else
                                     "/**/*.py minus site-packages, test(s), idle_test, lib2to3")},
      "psfull_candidates": g("ps_candidates", 0), "psfull_rejected_by_cpython": g("ps_rejected", 0),
      "psfull_programs": g("programs", 0),
      "corpus_files": g("files", 0), "corpus_files_checked": g("files_checked", 0),
      "corpus_files_not_compilable": g("not_compilable", 0) + g("not_decodable", 0),
      "code_objects": g("code_objects", 0), "blocks": g("blocks", 0), "instructions": g("instructions", 0),
      "jumps_checked_against_dis": g("jumps", 0), "pseudo_ops": g("pseudo_ops", 0),
      "jumps_retargeted_by_async_for_merge": g("retargeted", 0),
      "work_items": len(items), "other_target_versions": [list(v) for v in OTHER_VERSIONS],
      "programs_other_target_versions": g("programs_other_target_versions", 0),
      "rejected_by_other_interpreter": g("rejected_by_other_interpreter", 0),
  })
  rep.rule = ("one evaluation = one code object (module, function, lambda, comprehension, class body, generator, "
              "async) of one PS-full program or stdlib file, produced by pyc.compile_src + blocks.process_code and "
              "checked against clauses (a)-(h) of DESIGN C16, (h) = stream and every jump target equal CPython's dis; "
              "non-trivial = code object whose order has >= 2 blocks")
  rep.sample({"id": "fn:tryexcept.0>whiletrue.0>assign", "source": psfull.source("fn:tryexcept.0>whiletrue.0>assign")})
  rep.sample({"id": "afn:asyncfor.0>if.0>continue", "source": psfull.source("afn:asyncfor.0>if.0>continue")})
  rep.sample({"file": "asyncio/tasks.py", "checked": "every code object, clauses a-h"})
  rep.assumptions += [
      "the target of a SETUP_EXCEPT_311/SETUP_FINALLY pseudo-op is not a jump: a handler reachable only through it may "
      "be absent from the order (DESIGN C16 scoping decision 1)",
      "code objects containing SEND/END_ASYNC_FOR (3.12 await / yield from / async for surgery, which drops and merges "
      "blocks on purpose) are exempt from 'consecutive' in (b) and from (g); three documented artefacts of that surgery "
      "are tolerated there: CLEANUP_THROW kept after JUMP_BACKWARD_NO_INTERRUPT, GET_ANEXT as a mid-block target, jumps "
      "re-pointed from the removed JUMP_BACKWARD to its END_ASYNC_FOR",
      "programs deeper than the PS-full depth bound, and sources outside the stdlib corpus, are not covered",
  ]


def replay(case):
  boot.load()
  if case["kind"] == "ps":
    src = psfull.source(case["id"])
    name = case["id"]
  else:
    src = _read(os.path.join(STDLIB, case["path"]))
    name = case["path"]
  bad = check_source(src, name, {}, tuple(case["pyver"]) if case.get("pyver") else None) or []
  # the recorded signature first, then anything else the input shows
  bad.sort(key=lambda sm: (sm[0] != case.get("signature"), sm))
  out, seen = [], set()
  for sig, msg in bad:
    if sig not in seen:
      seen.add(sig)
      out.append({"key": sig_key(sig), "summary": "%s: %s" % (name, msg)})
  return out
