"""C03: a disable comment on the reported line silences exactly that error.

PS-err = PS-core prelude + an annotated extension + error-producing statement
templates of every adjustable kind (single-line, multi-line with the error on
the first / middle / last physical line of a call, subscript, comparison,
`with`, decorated def, two errors per line), placed in several block contexts,
alone and in ordered pairs.  Every program is analysed once (baseline) and then,
for EVERY error (L, E) the baseline reports, once per directive placement:

  trail-disable  `# pytype: disable=E` appended to line L
  trail-ignore   `# type: ignore` appended to line L
  block          stand-alone `# pytype: disable=E` inserted before the logical
                 statement containing L and `# pytype: enable=E` after it
  open           the same without the enable

The oracle is differential against the baseline of the same program; the
logical statement of L is computed here with CPython's `ast` (never with
pytype's director), line numbers (also those inside tracebacks) are shifted for
inserted lines.
"""

import ast as pyast
import collections
import re

from vk import boot, pt, run as vrun

ID = "C03"
LEVEL = "exploration"

# ------------------------------------------------------------------ PS-err

# Prelude pieces (the part of the PS-core prelude the templates use -- opaque
# condition c0, class A with attribute v, ident -- plus annotated callables and
# containers).  A program gets exactly the pieces whose name it mentions, in this
# order, so the cost of a variant is not dominated by re-analysing unused
# definitions and the programs differ in where the first definition sits.
PIECES = [
    ("c0", "c0 = input() == 'y'"),
    ("A", "class A:\n  def __init__(self, v=0):\n    self.v = v"),
    ("M", "class M:\n  def mi(self, a: int) -> int:\n    return a"),
    ("ident", "def ident(a):\n  return a"),
    ("fi", "def fi(a: int, b: int = 0) -> int:\n  return a"),
    ("g2", "def g2(a, b):\n  return a"),
    ("xs", "xs: list[int] = []"),
    ("ys", "ys: list[int] = []"),
]
PRELUDE = "".join(text + "\n" for _, text in PIECES)


def prelude_for(body):
  return "".join(text + "\n" for name, text in PIECES if re.search(r"\b%s\b" % name, body))


# (id, core?, text).  {n} is replaced by the statement's index in the program so
# that two instances never share a name.  Indentation unit: two spaces.
TEMPLATES = [
    # --- single line, one per adjustable kind
    ("attr", 1, "x{n} = A().nope"),
    ("wat", 1, "x{n} = fi('s')"),
    ("wac", 0, "x{n} = fi(1, 2, 3)"),
    ("brt", 1, "def r{n}() -> int:\n  return 's'"),
    ("brt_imp_if", 0, "def r{n}(c) -> int:\n  if c:\n    return 1"),
    ("brt_imp_def", 0, "def r{n}() -> int: pass"),
    ("brt_imp_last", 0, "def r{n}() -> int:\n  y = 1"),
    ("brt_imp_ml", 1, "def r{n}() -> int:\n  y = [\n    1,\n  ]"),
    ("brt_imp_mlcall", 0, "def r{n}() -> int:\n  print(\n    1,\n  )"),
    ("brt_imp_err", 0, "def r{n}() -> int:\n  y = g2(\n    1,\n    A().nope)"),
    ("atm", 1, "x{n}: int = 's'"),
    ("atm_cls", 0, "class K{n}:\n  y: int = 's'"),
    ("atm_param", 0, "def r{n}(a: int = 's'):\n  pass"),
    ("uop", 0, "x{n} = 1 + 's'"),
    ("name", 1, "x{n} = nope"),
    ("ncall", 0, "x{n} = A().v()"),
    ("miss", 0, "x{n} = g2(1)"),
    ("wkw", 0, "x{n} = fi(1, z=2)"),
    ("ret_attr", 0, "def r{n}():\n  return A().nope"),
    ("callee", 0, "def h{n}(a):\n  return a.nope\nx{n} = h{n}(1)"),
    ("lambda", 0, "x{n} = (lambda a: a.nope)(1)"),
    ("compr", 0, "x{n} = [a.nope for a in [A()]]"),
    ("ctm", 0, "xs.append('s')"),
    ("ctm_nested", 0, "x{n} = [\n  g2(xs.append('s'),\n    ys.append('t')),\n]"),
    ("name_nested", 0, "x{n} = [\n  g2(nope,\n    nope2),\n]"),
    # --- two errors on one line
    ("two_attr_wat", 1, "x{n} = fi(A().nope, 's')"),
    ("two_with", 0, "with A() as x{n}:\n  pass"),
    ("two_name_uop", 0, "x{n} = [nope, 1 + 's']"),
    ("two_same", 0, "x{n} = [A().nope, A().nope2]"),
    ("two_wat", 0, "x{n} = fi('s'), fi(1, 's')"),
    ("two_semi", 0, "x{n} = A().nope; y{n} = fi('s')"),
    ("two_ret", 0, "def r{n}(c) -> int:\n  if c:\n    return 1\n  y = A().nope"),
    # --- multi-line call: error on first / middle / last physical line
    ("call_first", 0, "x{n} = fi(\n  's',\n  2)"),
    ("call_mid", 0, "x{n} = g2(\n  A().nope,\n  1\n)"),
    ("call_last", 0, "x{n} = g2(\n  1,\n  A().nope)"),
    ("call_mid_plain", 0, "x{n} = g2(\n  c0.nope,\n  1\n)"),
    ("call_last_plain", 1, "x{n} = g2(\n  1,\n  c0.nope)"),
    ("sub_mid_plain", 0, "x{n} = [1][\n  c0.nope\n]"),
    ("cmp_last_plain", 0, "x{n} = (1 ==\n  c0.nope)"),
    ("dec_ml_last_plain", 0, "@ident(\n  c0.nope\n)\ndef d{n}():\n  pass"),
    ("call_last_attr", 0, "x{n} = g2(\n  1,\n  2\n  ).nope"),
    ("call_two_lines", 0, "x{n} = g2(\n  nope,\n  1 + 's'\n)"),
    ("call_first_mid", 1, "x{n} = fi(\n  A().nope,\n  's')"),
    ("call_nested", 0, "x{n} = [\n  fi('s',\n    fi('t')),\n]"),
    ("call_nested2", 0, "x{n} = g2(\n  fi(\n    's'),\n  fi('t',\n    2))"),
    ("call_kw", 0, "x{n} = fi(\n  1,\n  z=2)"),
    ("call_count", 0, "x{n} = fi(1,\n  2,\n  3)"),
    ("call_miss", 0, "x{n} = g2(\n  1\n)"),
    ("meth_par", 0, "x{n} = (M()\n  .mi('s'))"),
    ("meth_args", 0, "x{n} = M().mi(\n  's')"),
    ("meth_bs_last", 0, "x{n} = A() \\\n  .nope"),
    ("meth_bs_first", 0, "x{n} = A().nope \\\n  .v"),
    ("ncall_ml", 0, "x{n} = A().v(\n  1,\n)"),
    # --- subscript
    ("sub_first", 1, "x{n} = [1][\n  's'\n]"),
    ("sub_mid", 0, "x{n} = [1][\n  A().nope\n]"),
    ("sub_last", 0, "x{n} = [1, 2][\n  0\n  ].nope"),
    # --- comparison
    ("cmp_first", 0, "x{n} = (1 <\n  's')"),
    ("cmp_mid", 0, "x{n} = (1 <\n  A().nope <\n  3)"),
    ("cmp_last", 0, "x{n} = (1 ==\n  A().nope)"),
    ("bin_last", 0, "x{n} = (1 +\n  2 +\n  's')"),
    # --- with
    ("with_bs", 1, "with fi(1) as x{n}, \\\n  A() as y{n}:\n  pass"),
    ("with_par", 0, "with (A() as x{n},\n  M() as y{n}):\n  pass"),
    ("with_mid", 0, "with open(\n  A().nope\n) as x{n}:\n  pass"),
    ("with_body", 0, "with open('f') as x{n}:\n  y{n} = x{n}.nope"),
    # --- decorated def / class
    ("dec_name", 0, "@nope\ndef d{n}():\n  pass"),
    ("dec_call", 0, "@fi('s')\ndef d{n}():\n  pass"),
    ("dec_ml", 1, "@fi(\n  's'\n)\ndef d{n}():\n  pass"),
    ("dec_ml_last", 0, "@g2(\n  1,\n  A().nope)\ndef d{n}():\n  pass"),
    ("dec_second", 0, "@ident\n@nope\ndef d{n}():\n  pass"),
    ("dec_body", 0, "@ident\ndef d{n}() -> int:\n  return 's'"),
    ("dec_imp", 1, "@ident\ndef d{n}(c) -> int:\n  if c:\n    return 1"),
    ("dec_ncall", 0, "@A().v\ndef d{n}():\n  pass"),
    ("dec_cls", 0, "@nope\nclass K{n}:\n  pass"),
    ("dec_param", 0, "@ident\ndef d{n}(a: int = 's'):\n  pass"),
    # errors of one class on a decorator line and on the def / signature line (and on two decorators)
    ("dec_two_wat", 0, "@fi('s')\n@ident\ndef d{n}(a=fi('t')):\n  pass"),
    ("dec_two_name", 0, "@nope\n@ident\ndef d{n}(a=nope2):\n  pass"),
    ("dec_mid_def", 0, "@ident\n@fi('s')\ndef d{n}(a: int = 's', b=fi('t')):\n  pass"),
    ("dec_both_decos", 0, "@fi('s')\n@fi('t')\ndef d{n}():\n  pass"),
    ("dec_cls_two", 0, "@nope\nclass K{n}(nope2):\n  pass"),
    ("dec_sig_ml", 0, "@fi('s')\ndef d{n}(a,\n    b=fi('t')):\n  pass"),
    # errors found while evaluating a string annotation / type comment (evaluated as a separate expression)
    ("strann", 1, "def r{n}(a: 'nope_t{n}'):\n  pass"),
    ("strann_ret", 0, "def r{n}(a) -> 'A.nope':\n  return a"),
    ("strann_var", 0, "x{n}: 'nope_v{n}' = None"),
    ("tcomment", 0, "x{n} = None  # type: nope_tc{n}"),
    # import errors (a trailing `type: ignore` on an import line is special-cased by the VM)
    ("imp_mod", 0, "import nosuchmod\nx{n} = nosuchmod.z"),
    ("imp_from", 0, "from nosuchmod import z\nx{n} = z"),
    ("imp_from_mixed", 0, "from collections import OrderedDict, nosuch\nx{n} = OrderedDict()"),
    ("imp_sub", 0, "import collections.nosuch\nx{n} = collections.OrderedDict()"),
    ("dec_static", 0, "class K{n}:\n  @staticmethod\n  def s() -> int:\n    return 's'\n  @property\n  def p(self) -> int:\n    return A().nope"),
    # --- multi-line def / return / annotated assignment / compound headers
    ("def_ml_param", 1, "def r{n}(a,\n    b: int = 's'):\n  pass"),
    ("def_ml_ret", 0, "def r{n}(a\n    ) -> int:\n  return 's'"),
    ("ret_ml", 0, "def r{n}() -> int:\n  return [\n    's'\n  ][0]"),
    ("atm_ml", 0, "x{n}: int = (\n  's'\n)"),
    ("atm_ml_ann", 0, "x{n}: dict[\n  str, int] = 's'"),
    ("if_hdr", 0, "if A().nope:\n  x{n} = 1"),
    ("if_hdr_ml", 0, "if (c0 and\n    A().nope):\n  x{n} = 1"),
    ("elif_hdr", 0, "if c0:\n  x{n} = 1\nelif A().nope:\n  x{n} = 2"),
    ("for_hdr", 0, "for x{n} in A():\n  pass"),
    ("try_exc", 0, "try:\n  x{n} = A().nope\nexcept nope:\n  pass"),
    ("cls_meth", 0, "class K{n}:\n  def m(self) -> int:\n    return 's'"),
]

# (id, wrapper) — `{T}` is the (indented) template text.
CONTEXTS = [
    ("mod", "{T}", 0),
    ("fn", "def w{n}():\n{T}", 1),
    ("fnret", "def w{n}(c) -> int:\n  if c:\n    return 1\n{T}", 1),
    ("if", "if c0:\n{T}", 1),
    ("meth", "class W{n}:\n  def w(self):\n{T}", 2),
    ("try", "try:\n{T}\nfinally:\n  pass", 1),
    # characters that str.splitlines() treats as line breaks but the tokenizer does not
    ("ff", "\x0c\n_ls = 'x\u2028y\x85z'\n{T}", 0),
]

TPL = {t[0]: t for t in TEMPLATES}
CTX = {c[0]: c for c in CONTEXTS}
PLACEMENTS = ("trail-disable", "trail-ignore", "block", "open")
QUICK_CORE_ONLY_CONTEXTS = ("fn", "if", "try", "ff")


def _indent(text, k):
  pad = "  " * k
  return "\n".join(pad + ln for ln in text.split("\n"))


def render(ctx, tids):
  """Program text of template sequence `tids` placed together in context ctx."""
  _, wrap, depth = CTX[ctx]
  body = "\n".join(TPL[t][2].replace("{n}", str(i)) for i, t in enumerate(tids))
  text = wrap.replace("{n}", "").replace("{T}", _indent(body, depth)) + "\n"
  return prelude_for(text) + text


def items_for(tier):
  items = []
  all_ids = [t[0] for t in TEMPLATES]
  core = [t[0] for t in TEMPLATES if t[1]]
  for c in CONTEXTS:
    for t in all_ids:
      if tier == "quick" and c[0] in QUICK_CORE_ONLY_CONTEXTS and t not in core:
        continue
      items.append((c[0], (t,)))
  if tier == "quick":
    pair_ctx = {"mod": (core, core)}
  else:
    # (all ordered pairs of all templates is ~10^4 programs x ~12 variants: hours on this VM)
    pair_ctx = {"mod": (core, core), "fnret": (core, core), "meth": (core, core)}
  for c, (first, second) in pair_ctx.items():
    for a in first:
      for b in second:
        items.append((c, (a, b)))
  return items


# ------------------------------------------------------------------ independent source analysis

# Error classes that a call, a subscript or a comparison itself can raise.  For
# these pytype documents (and pins in directors_test: test_ignore,
# test_nested_call_in_function_decorator, ...) that a trailing directive inside
# a multi-line call-like expression also applies to the first line of that
# expression, because that is where 3.12 reports the call's own error.
CALL_CLASSES = frozenset((
    "attribute-error", "duplicate-keyword-argument", "invalid-annotation", "missing-parameter",
    "not-instantiable", "wrong-arg-count", "wrong-arg-types", "wrong-keyword-args", "unsupported-operands"))


def stmt_span(tree, line):
  """(first, last) physical line of the innermost logical statement containing `line`.

  Simple statement: its own extent.  Compound statement: its header (up to the
  line before the body).  Decorators and except clauses count as their own
  logical statements.  Computed from CPython's ast only.
  """
  best = None

  def offer(a, b):
    nonlocal best
    if a <= line <= b and (best is None or (b - a, -a) < (best[1] - best[0], -best[0])):
      best = (a, b)

  for node in pyast.walk(tree):
    if isinstance(node, pyast.ExceptHandler):
      offer(node.lineno, max(node.lineno, node.body[0].lineno - 1))
    if not isinstance(node, pyast.stmt):
      continue
    for d in getattr(node, "decorator_list", ()):
      offer(d.lineno, d.end_lineno)
    body = getattr(node, "body", None)
    if isinstance(body, list) and body:
      offer(node.lineno, max(node.lineno, body[0].lineno - 1))
    else:
      offer(node.lineno, node.end_lineno)
  return best or (line, line)


def expr_starts(tree, line):
  """First lines of the multi-line call / subscript / comparison expressions that contain `line`."""
  return set(n.lineno for n in pyast.walk(tree)
             if isinstance(n, (pyast.Call, pyast.Subscript, pyast.Compare))
             and n.lineno <= line <= n.end_lineno and n.lineno != n.end_lineno)


def first_def_line(tree):
  ls = [n.lineno for n in pyast.walk(tree)
        if isinstance(n, (pyast.FunctionDef, pyast.AsyncFunctionDef, pyast.ClassDef))]
  return min(ls) if ls else None


_TB_RE = re.compile(r"\bline (\d+), in ")


def shift_error(err, fn):
  name, line, msg = err
  return (name, fn(line), _TB_RE.sub(lambda m: "line %d, in " % fn(int(m.group(1))), msg))


def make_variant(lines, s, e, L, E, placement):
  """Returns the new source, or None if the placement cannot be written."""
  if placement.startswith("trail"):
    if lines[L - 1].rstrip().endswith("\\"):
      return None
    new = list(lines)
    new[L - 1] += "  # pytype: disable=" + E if placement == "trail-disable" else "  # type: ignore"
    return "\n".join(new) + "\n"
  pad = lines[s - 1][:len(lines[s - 1]) - len(lines[s - 1].lstrip())]
  new = lines[:s - 1] + [pad + "# pytype: disable=" + E] + lines[s - 1:e]
  if placement == "block":
    new.append(pad + "# pytype: enable=" + E)
  new += lines[e:]
  return "\n".join(new) + "\n"


def _fmt(errs):
  return "; ".join("%s@%d" % (n, l) for n, l, _ in sorted(errs)[:4]) or "-"


def judge(src, base_errors, base_pyi, new_src, new_errors, new_pyi, L, E, placement):
  """The oracle.  Returns a list of (kind, signature, message).

  `signature` describes the deviation without absolute line numbers or the class
  E, so that one root cause gives one key whatever program exposes it.
  """
  tree = pyast.parse(src)
  s, e = stmt_span(tree, L)
  bad = []
  B, N = collections.Counter(base_errors), collections.Counter(new_errors)
  cls = lambda x: "E" if x[0] == E else x[0]
  if placement.startswith("trail"):
    ign = placement == "trail-ignore"
    starts = expr_starts(tree, L)

    def where(l):
      if l == L:
        return "on-L"
      if l == s:
        return "stmt-first-line"
      if l in starts:
        return "enclosing-expr-first-line"
      return "elsewhere-in-stmt" if s <= l <= e else "outside-stmt"

    left = [x for x in N.elements() if x[1] == L and (ign or x[0] == E)]
    if left:
      bad.append(("not-silenced", sorted(set(cls(x) for x in left)),
                  "%s appended to line %d does not silence it: %s still reported there" % (
                      "`# type: ignore`" if ign else "`# pytype: disable=%s`" % E, L, _fmt(left))))

    def exempt(x):
      if not (ign or x[0] == E):
        return False
      return x[1] in (L, s) or (x[1] in starts and (ign or E in CALL_CLASSES))

    lost = [x for x in (B - N).elements() if not exempt(x)]
    gained = [x for x in (N - B).elements() if x not in left]
    if lost or gained:
      # position detail only for the directive's own class; other classes: inside / outside the statement
      pos = lambda x: where(x[1]) if x[0] == E else ("in-stmt" if s <= x[1] <= e else "outside-stmt")
      sig = sorted(set([("lost", cls(x), pos(x)) for x in lost] + [("gained", cls(x), pos(x)) for x in gained]))
      bad.append(("other-changed", sig, "%s appended to line %d (logical statement: lines %d-%d) changed other errors: lost [%s] gained [%s]" % (
          "`# type: ignore`" if ign else "`# pytype: disable=%s`" % E, L, s, e, _fmt(lost), _fmt(gained))))
  else:
    closed = placement == "block"
    # new numbering: the disable is new line s; old line l >= s -> l+1; the enable is new line e+2; old l > e -> l+2
    fn = lambda l: l + (1 if l >= s else 0) + (1 if closed and l > e else 0)
    inside = lambda l: l >= s and (l <= e or not closed)
    expect = collections.Counter(shift_error(x, fn) for x in base_errors if not (x[0] == E and inside(x[1])))
    if not closed:
      fd = first_def_line(pyast.parse(new_src))
      if fd is not None and s >= fd:
        ok_late = [x for x in N if x[0] == "late-directive" and x[1] == s and x[2].startswith(E + " disabled from here")]
        if ok_late:
          N[ok_late[0]] -= 1
          N = +N
        else:
          bad.append(("late-directive", [], "open-ended `# pytype: disable=%s` at line %d after the first definition: no late-directive warning" % (E, s)))

    def where(l):   # new numbering
      if l == s:
        return "disable-line"
      if closed and l == e + 2:
        return "enable-line"
      if l < s:
        return "before-range"
      return "in-range" if (not closed or l <= e + 1) else "after-enable"

    missing = list((expect - N).elements())
    extra = list((N - expect).elements())
    still = [x for x in extra if x[0] == E and where(x[1]) == "in-range"]
    if still:
      bad.append(("not-silenced", [], "stand-alone `# pytype: disable=%s` inserted before line %d%s: still reported inside the range: %s (new numbering)" % (
          E, s, " and enable after line %d" % e if closed else "", _fmt(still))))
    extra = [x for x in extra if x not in still]
    if missing or extra:
      sig = sorted(set([("lost", cls(x), where(x[1])) for x in missing] + [("gained", cls(x), where(x[1])) for x in extra]))
      bad.append(("range-mismatch", sig, "stand-alone `# pytype: disable=%s` inserted before line %d%s: other errors changed: lost [%s] gained [%s] (new numbering)" % (
          E, s, ", enable after line %d" % e if closed else ", no enable", _fmt(missing), _fmt(extra))))
  if new_pyi != base_pyi:
    bad.append(("stub-changed", [], "%s for %s reported at line %d changed the inferred stub" % (placement, E, L)))
  return bad


# ------------------------------------------------------------------ running


def _analyze(src, share):
  try:
    r = pt.analyze(src, share=share)
    return r.errors, r.pyi, None
  except Exception as ex:  # pylint: disable=broad-except
    return None, None, "%s: %s" % (type(ex).__name__, str(ex)[:200])


def check_variant(src, base_errors, base_pyi, L, E, placement, share):
  """Returns None if the placement cannot be written, else (violations, variant source)."""
  lines = src.split("\n")[:-1]
  s, e = stmt_span(pyast.parse(src), L)
  new_src = make_variant(lines, s, e, L, E, placement)
  if new_src is None:
    return None
  try:
    pyast.parse(new_src)
  except SyntaxError as ex:
    raise RuntimeError("harness produced an unparsable variant (%s):\n%s" % (ex, new_src))
  errs, pyi, exc = _analyze(new_src, share)
  if exc:
    return [("variant-crash", [], "%s for %s at line %d: analysis raised %s" % (placement, E, L, exc))], new_src
  return judge(src, base_errors, base_pyi, new_src, errs, pyi, L, E, placement), new_src


def check_program(src, share, only=None):
  """Baseline + every (error, placement) variant.

  Returns (stats Counter, violations [dict], baseline errors).
  """
  st = collections.Counter()
  errs, pyi, exc = _analyze(src, share)
  if exc:
    st["baseline-exception"] += 1
    return st, [], None
  st["baseline"] += 1
  viol = []
  targets = sorted(set((l, n) for n, l, _ in errs))
  if not targets:
    st["baseline-without-error"] += 1
  fresh = None
  for L, E in targets:
    if not L:
      st["error-without-line"] += 1
      continue
    for p in PLACEMENTS:
      if only and (L, E, p) != tuple(only):
        continue
      res = check_variant(src, errs, pyi, L, E, p, share)
      if res is None:
        st["n/a:line-ends-in-backslash"] += 1
        continue
      bad, new_src = res
      if bad and share:
        # confirm with fresh loaders on both sides before reporting
        if fresh is None:
          fresh = _analyze(src, False)
        if fresh[2] is None:
          bad, new_src = check_variant(src, fresh[0], fresh[1], L, E, p, False)
          if not bad:
            st["differs-with-shared-loader"] += 1
      st["variants"] += 1
      st["variant:" + p] += 1
      st["class:" + E] += 1
      if bad:
        st["violating-variants"] += 1
        for kind, sig, msg in bad:
          viol.append({"L": L, "E": E, "placement": p, "kind": kind, "sig": sig, "msg": msg, "variant": new_src})
      else:
        st["ok:" + p] += 1
  return st, viol, errs


def _key(v):
  return vrun.jkey([v["placement"], v["kind"], v["sig"]])


def work(item):
  ctx, tids = item
  src = render(ctx, tids)
  st, viol, errs = check_program(src, True)
  if errs:
    tree = pyast.parse(src)
    for _, l, _ in errs:
      if l:
        s, e = stmt_span(tree, l)
        st["shape:" + ("single-line" if s == e else "first-line" if l == s else "last-line" if l == e else "middle-line")] += 1
    per_line = collections.Counter(l for _, l, _ in errs)
    if any(v > 1 for v in per_line.values()):
      st["programs-with-two-errors-on-a-line"] += 1
  # at most one violation per key from one program
  out = {}
  for v in viol:
    out.setdefault(_key(v), v)
  return dict(st), list(out.values())[:20], src


def run(rep, tier, seed):
  items = items_for(tier)
  tot = collections.Counter()
  nprog_err = 0
  found = {}   # key -> [count, smallest case]
  for item, (st, viol, src) in vrun.pmap(work, items, seed=seed, maxtasks=400, progress=2000):
    tot.update(st)
    if st.get("variants"):
      nprog_err += 1
      rep.nontrivial.add("%s/%s" % (item[0], "+".join(item[1])))
    for v in viol:
      k = _key(v)
      case = {"src": src, "L": v["L"], "E": v["E"], "placement": v["placement"], "kind": v["kind"], "sig": v["sig"],
              "ctx": item[0], "templates": list(item[1]), "variant": v["variant"], "msg": v["msg"]}
      rank = (len(item[1]), len(src), src, v["L"], v["E"])
      if k not in found:
        found[k] = [0, rank, case]
      found[k][0] += 1
      if rank < found[k][1]:
        found[k][1:] = [rank, case]
  # one violation per root-cause signature, witnessed by the smallest program that shows it
  for k in sorted(found):
    n, _, case = found[k]
    rep.violation(k, "[%s/%s; %d program(s) with this signature] %s" % (
        case["ctx"], "+".join(case["templates"]), n, case.pop("msg")), case)
  rep.evaluations = tot["variants"]
  for k, n in sorted(tot.items()):
    if k.startswith(("ok:", "n/a:", "class:", "shape:")) or k in (
        "violating-variants", "baseline-exception", "baseline-without-error", "differs-with-shared-loader",
        "programs-with-two-errors-on-a-line", "error-without-line"):
      rep.outcome(k, n)
  rep.cov.update({
      "programs": len(items), "programs_with_errors": nprog_err,
      "analyses": tot["baseline"] + tot["variants"],
      "variants_per_placement": {p: tot["variant:" + p] for p in PLACEMENTS},
      "error_classes": sorted(k[6:] for k in tot if k.startswith("class:")),
      "templates": len(TEMPLATES), "core_templates": sum(t[1] for t in TEMPLATES),
      "contexts": [c[0] for c in CONTEXTS],
      "bounds": ("tier=%s: every template (%d) alone in every context (%d; quick: non-core templates only in mod/fnret/meth); all ordered pairs of %s in context mod%s; "
                 "for every reported (line, class): 4 placements" % (
                     tier, len(TEMPLATES), len(CONTEXTS),
                     "the %d core templates" % sum(t[1] for t in TEMPLATES),
                     "" if tier == "quick" else " + the same pairs in contexts fnret and meth")),
  })
  rep.rule = ("evaluation = (program, reported (line L, class E), placement) analysed by pytype.io.generate_pyi and judged "
              "against the baseline run of the same program: (1) nothing of class E (anything, for type: ignore) is left on L; "
              "(2) all other errors identical as a multiset of (name, line, message), except same-class errors on the first "
              "line of L's logical statement (ast) or, for call-raised classes, of a multi-line call/subscript/comparison "
              "enclosing L; (3) stub text identical; (4) stand-alone forms: exactly the errors of class E inside "
              "[disable, enable] (or to EOF) vanish, line numbers (also in tracebacks) shifted, plus the documented "
              "late-directive warning for the open form; non-trivial = program whose baseline reports at least one error")
  rep.sample({"ctx": "mod", "templates": ["call_first_mid"], "program_tail": TPL["call_first_mid"][2].replace("{n}", "0"),
              "variants": "for each of attribute-error@2, wrong-arg-types@1: trail-disable, trail-ignore, block, open"})
  rep.sample({"ctx": "fnret", "templates": ["brt_imp_ml", "dec_ml"], "program": render("fnret", ("brt_imp_ml", "dec_ml"))})
  rep.assumptions += [
      "logical statement of a line = innermost ast statement (compound: header up to the line before its body; each decorator and except clause on its own)",
      "deliberate, test-pinned behaviour is not a violation: a trailing directive also applies to the first line of its logical statement and, for "
      "the classes a call/subscript/comparison raises (CALL_CLASSES; every class for type: ignore), to the first line of each enclosing multi-line "
      "call/subscript/comparison",
      "an open-ended stand-alone disable after the first def/class is expected to add exactly one late-directive warning on its own line (documented); it is not counted as a changed error",
      "trailing placements on a physical line ending in a backslash cannot be written and are counted as n/a",
      "analyses share one loader per worker process; every violating variant is re-judged with fresh loaders before it is reported",
      "violation key = (placement, kind, set of (lost/gained, class or E, position relative to the statement/range)); the stored case is the smallest program with that signature",
      "only builtins/typing/collections/enum importable; python 3.12 line-number conventions",
  ]


def replay(case):
  boot.load()
  _, viol, _ = check_program(case["src"], False, only=(case["L"], case["E"], case["placement"]))
  want = vrun.jkey([case["placement"], case["kind"], case["sig"]])
  return [{"key": _key(v), "summary": v["msg"]} for v in viol if _key(v) == want]
