"""C18: flow conditions and block-state merging preserve meaning (rewrite engine).

Part 1 (inputs): every application of the condition constructors And/Or/Not to
every condition term up to a depth bound over the atoms {a,b,c} (plus TRUE and
FALSE) is compared, under all 8 truth assignments, with Python's and/or/not;
Variable.with_condition is compared binding by binding for every variable with
one or two bindings.

Part 2 (histories): explicit-state exploration of the real BlockState objects
reachable from a few constructed states through store_local, with_condition,
merge_into(None) and merge_into(s') for *every* s' reached so far.  Every
transition executes the real method and its result is compared, under all 8
truth assignments, with a reference transition on denotations:

  den(S)(t)[n]  = { b.value : b in S.get_locals()[n].bindings, b.condition
                    holds under t, and (n not in the block-condition set or the
                    block condition holds under t) }
  store(n, v)   : den'[n] = {v} where the block condition holds, else {}
  cond(c)       : den'[n] = den[n] where c holds, else {}; block' = block and c
  merge(a, b)   : den'[n] = den(a)[n] | den(b)[n];        block' = a or b
  merge(a,None) : den' = den(a); block' = block(a)

The reference never looks at which branch the implementation took; conditions
used as operands are evaluated from their *term specification* by the reference
evaluator, not from the object the implementation built.

Truth tables are 8-bit masks (bit t = value under assignment t), so "for every
assignment" is one integer comparison.

State identity.  Live BlockState objects are kept (they are plain Python).  Two
states are identified iff their canonical key is equal; the key is an injective
serialisation of the complete attribute contents of the object (insertion order
of the locals dict, order of each bindings tuple, values, the full structure of
every condition with the TRUE/FALSE singletons distinguished from any other
instance, the block-condition set), modulo only (i) identity of immutable frozen
dataclass instances other than TRUE/FALSE and (ii) iteration order of
(frozen)sets.  The operations are functions of exactly these contents (they
compare with ==, `in` and `is TRUE/FALSE`), hence equal keys => equal future
behaviour.  Stored states are never mutated by the harness: store_local (the one
mutating operation) is applied to a shallow attribute copy; after every other
operation the operands' fingerprints are compared with the stored ones (an
operation that changes its operand is reported and stops the search), and every
level ends with an integrity pass that recomputes the full key of every state.
States never cross a process boundary (pickling would duplicate TRUE/FALSE):
workers receive *recipes* (the history of public operations that produced a
state), replay them with the public operations only, and verify that the result
has the key hash and denotation the parent recorded.

Levels.  S_0 = the constructed states; S_{k+1} = S_k + every unary operation on
a state of S_k + a.merge_into(b) for every ordered pair of S_k.  quick: S_2
complete, then every operation (incl. every ordered pair) on S_2 once more,
checked but not stored.  thorough: S_3 complete, then on every state of S_3 every
unary operation and merge_into with every state of S_1 in both orders (depth 4
proper would need |S_3|^2 = 3.3e10 merges).
"""

import itertools
import os
import sys

from vk import boot, run as vrun

ID = "C18"
LEVEL = "model_checking"
NEEDS_EXT = False

ATOMS = ("a", "b", "c")
AMASK = {"a": 0xAA, "b": 0xCC, "c": 0xF0}   # bit t of AMASK[p] = value of p under assignment t
FULL = 0xFF
NAMES = ("x", "y")
VALUES = (1, 2)
SLOTS = tuple((n, v) for n in NAMES for v in VALUES)
MAXV = 40          # violations kept per run (minimal first)
# conditions offered to BlockState.with_condition: depth-1 terms, one representative per shape up to
# renaming of atoms (the full set of 16 depth-1 objects gives 2 412 depth-2 states and is out of budget);
# `a` is also the initial condition, so Not(a)/And(a,b)/Or(a,b) interact with it, `c` is independent of it.
CMENU = ("a", "b", "c", ("not", "a"), ("not", "b"), ("and", "a", "b"), ("or", "a", "b"), "F", "T")

_M = None
_K_ATOM = _K_TRUE = _K_FALSE = _K_NOT = _K_AND = _K_OR = None


class _Mods:
  pass


def mods():
  """Import the code under test (lazily: the runner fixes PYTHONPATH after importing this module)."""
  global _M
  if _M is not None:
    return _M
  import dataclasses
  if boot.REPO not in sys.path:
    sys.path.insert(0, boot.REPO)
  from pytype.rewrite.flow import conditions, variables, state
  here = os.path.realpath(os.path.dirname(conditions.__file__))
  want = os.path.realpath(os.path.join(boot.REPO, "pytype", "rewrite", "flow"))
  assert here == want, (here, want)
  assert "pytype.typegraph.cfg" not in sys.modules

  @dataclasses.dataclass(frozen=True)
  class Atom(conditions.Condition):
    name: str

    def __repr__(self):
      return self.name

  m = _Mods()
  m.c, m.v, m.s = conditions, variables, state
  m.Atom = Atom
  m.atoms = {p: Atom(p) for p in ATOMS}
  global _K_ATOM, _K_TRUE, _K_FALSE, _K_NOT, _K_AND, _K_OR
  _K_ATOM, _K_TRUE, _K_FALSE = Atom, conditions._True, conditions._False
  _K_NOT, _K_AND, _K_OR = conditions._Not, conditions._And, conditions._Or
  _M = m
  return m


# ---------------------------------------------------------------- terms (specifications)
# term := "a" | "b" | "c" | "T" | "F" | ("not", t) | ("and", t...) | ("or", t...)


def ref_tt(term):
  """Reference truth table of a term specification: Python's and/or/not, bit-parallel over 8 assignments."""
  if isinstance(term, str):
    if term == "T":
      return FULL
    if term == "F":
      return 0
    return AMASK[term]
  op = term[0]
  if op == "not":
    return ~ref_tt(term[1]) & FULL
  if op == "and":
    r = FULL
    for t in term[1:]:
      r &= ref_tt(t)
    return r
  if op == "or":
    r = 0
    for t in term[1:]:
      r |= ref_tt(t)
    return r
  raise ValueError(term)


def build(term):
  """Build the term with the implementation's constructors."""
  m = mods()
  if isinstance(term, str):
    if term == "T":
      return m.c.TRUE
    if term == "F":
      return m.c.FALSE
    return m.atoms[term]
  op = term[0]
  args = [build(t) for t in term[1:]]
  if op == "not":
    return m.c.Not(args[0])
  if op == "and":
    return m.c.And(*args)
  if op == "or":
    return m.c.Or(*args)
  raise ValueError(term)


def tstr(term):
  if isinstance(term, str):
    return {"T": "TRUE", "F": "FALSE"}.get(term, term)
  if term[0] == "not":
    return "Not(%s)" % tstr(term[1])
  return "%s(%s)" % (term[0].capitalize(), ", ".join(tstr(t) for t in term[1:]))


def tup(x):
  return tuple(tup(y) for y in x) if isinstance(x, (list, tuple)) else x


# ---------------------------------------------------------------- meaning of implementation objects


class Malformed(Exception):
  pass


def tt(cond):
  """Truth table of a condition *object*: the meaning of the data structure."""
  t = type(cond)
  if t is _K_ATOM:
    return AMASK[cond.name]
  if t is _K_TRUE:
    return FULL
  if t is _K_FALSE:
    return 0
  if t is _K_NOT:
    return ~tt(cond.condition) & FULL
  if t is _K_AND:
    r = FULL
    for x in cond.conditions:
      r &= tt(x)
    return r
  if t is _K_OR:
    r = 0
    for x in cond.conditions:
      r |= tt(x)
    return r
  raise Malformed("not a condition: %r" % (cond,))


def ckey(cond):
  """Canonical structural key of a condition object (TRUE/FALSE singletons kept apart from look-alikes)."""
  m = mods()
  c = m.c
  if cond is c.TRUE:
    return "T"
  if cond is c.FALSE:
    return "F"
  t = type(cond)
  if t is m.Atom:
    return cond.name
  if t is c._Not:
    return ("not", ckey(cond.condition))
  if t is c._And:
    return ("and", frozenset(ckey(x) for x in cond.conditions))
  if t is c._Or:
    return ("or", frozenset(ckey(x) for x in cond.conditions))
  return ("?", t.__name__, id(cond))


def vkey(var):
  return (var.name, tuple((b.value, ckey(b.condition)) for b in var.bindings))


_ATTRS = ("_locals", "_condition", "_locals_with_block_condition")


def skey(s):
  d = s.__dict__
  if len(d) != 3:
    raise Malformed("BlockState attributes changed: %s" % sorted(d))
  return (tuple((n, vkey(v)) for n, v in d["_locals"].items()),
          ckey(d["_condition"]), frozenset(d["_locals_with_block_condition"]))


def fp(s):
  """Cheap fingerprint: identical fingerprint => identical key, because everything referenced is an immutable
  frozen dataclass instance (the level-end integrity pass recomputes the full key as a backstop)."""
  d = s.__dict__
  loc = d["_locals"]
  return (tuple(loc), tuple(map(id, loc.values())), id(d["_condition"]),
          frozenset(d["_locals_with_block_condition"]), len(d))


def clone(s):
  """Harness copy (does not run any code under test)."""
  t = object.__new__(type(s))
  d = s.__dict__
  t.__dict__["_locals"] = dict(d["_locals"])
  t.__dict__["_condition"] = d["_condition"]
  t.__dict__["_locals_with_block_condition"] = set(d["_locals_with_block_condition"])
  return t


def den(s):
  """(per-slot masks, block mask): the denotation of a live state under all 8 assignments."""
  blk = tt(s._condition)
  wb = s._locals_with_block_condition
  out = dict.fromkeys(SLOTS, 0)
  for n, var in s.get_locals().items():
    g = blk if n in wb else FULL
    for b in var.bindings:
      k = (n, b.value)
      if k not in out:
        raise Malformed("unexpected local/value %r" % (k,))
      out[k] |= tt(b.condition) & g
  return tuple(out[k] for k in SLOTS), blk


# reference transitions on denotations ------------------------------------------------


def ref_store(D, C, n, v):
  return tuple(((C if vv == v else 0) if nn == n else D[i]) for i, (nn, vv) in enumerate(SLOTS)), C


def ref_cond(D, C, cm):
  return tuple(x & cm for x in D), C & cm


def ref_merge(Da, Ca, Db, Cb):
  return tuple(x | y for x, y in zip(Da, Db)), Ca | Cb


def assignment(t):
  return "{" + ", ".join("%s=%d" % (p, (AMASK[p] >> t) & 1) for p in ATOMS) + "}"


def explain(got, want, what):
  (Dg, Cg), (Dw, Cw) = got, want
  for i, k in enumerate(SLOTS):
    if Dg[i] != Dw[i]:
      diff = Dg[i] ^ Dw[i]
      t = (diff & -diff).bit_length() - 1
      return "%s: under %s local %s %s value %r but the reference says it %s" % (
          what, assignment(t), k[0], "has" if (Dg[i] >> t) & 1 else "lacks", k[1],
          "may" if (Dw[i] >> t) & 1 else "may not")
  diff = Cg ^ Cw
  t = (diff & -diff).bit_length() - 1
  return "%s: under %s the block condition is %s but the reference says %s" % (
      what, assignment(t), bool((Cg >> t) & 1), bool((Cw >> t) & 1))


# ---------------------------------------------------------------- part 1: constructors


def check_app(op, argterms, argobjs=None):
  """One constructor application; returns (result object or None, truth table, error or None)."""
  m = mods()
  if argobjs is None:
    argobjs = [build(t) for t in argterms]
  try:
    if op == "not":
      r = m.c.Not(argobjs[0])
    elif op == "and":
      r = m.c.And(*argobjs)
    else:
      r = m.c.Or(*argobjs)
    got = tt(r)
  except Exception as e:  # pylint: disable=broad-except
    return None, None, "%s raised %s: %s" % (tstr((op,) + tuple(argterms)), type(e).__name__, e)
  ins = [tt(o) for o in argobjs]
  if op == "not":
    want = ~ins[0] & FULL
  elif op == "and":
    want = FULL
    for x in ins:
      want &= x
  else:
    want = 0
    for x in ins:
      want |= x
  term = (op,) + tuple(argterms)
  if got == want:
    want2 = ref_tt(term)   # end to end from the specification
    if got != want2:
      want = want2
  if got != want:
    diff = got ^ want
    t = (diff & -diff).bit_length() - 1
    return r, got, "%s = %r is %s under %s but %s of the operands is %s" % (
        tstr(term), r, bool((got >> t) & 1), assignment(t), op, bool((want >> t) & 1))
  return r, got, None


def term_levels(depth):
  """Distinct condition objects by construction depth; each binary/unary application checked.

  Returns (levels: list of lists of (term, obj), stats, violations).
  Level d+1 applies Not to every object of level <= d and And/Or to every ordered
  pair of them (only applications involving a level-d object are new).
  """
  seen = {}
  levels = []
  cur = []
  for t in ATOMS + ("T", "F"):
    o = build(t)
    seen[ckey(o)] = (t, o)
    cur.append((t, o))
  levels.append(cur)
  stats = {"apps": 0, "contingent": 0, "taut": 0, "contra": 0, "simplified": 0}
  viol = []

  def one(op, terms, objs, nxt):
    r, got, err = check_app(op, terms, objs)
    stats["apps"] += 1
    if err:
      if len(viol) < MAXV:
        viol.append(({"part": "term", "op": op, "args": list(terms)}, err))
      return
    if got == FULL:
      stats["taut"] += 1
    elif got == 0:
      stats["contra"] += 1
    else:
      stats["contingent"] += 1
    k = ckey(r)
    if k in seen:
      stats["simplified"] += 1
    elif nxt is not None:
      term = (op,) + tuple(terms)
      seen[k] = (term, r)
      nxt.append((term, r))

  old = []
  for d in range(depth):
    last = d == depth - 1
    nxt = None if last else []
    new = levels[-1]
    allp = old + new
    for t, o in new:
      one("not", (t,), [o], nxt)
    newset = set(id(o) for _, o in new)
    for (t1, o1) in allp:
      for (t2, o2) in allp:
        if id(o1) in newset or id(o2) in newset:
          one("and", (t1, t2), [o1, o2], nxt)
          one("or", (t1, t2), [o1, o2], nxt)
    old = allp
    if last:
      break
    levels.append(nxt)
  return levels, stats, viol


def nary_apps(pool, arities, stats, viol):
  """And/Or with 0, 1 and 3+ arguments over a pool of (term, obj)."""
  for k in arities:
    for combo in itertools.product(pool, repeat=k):
      terms = tuple(t for t, _ in combo)
      objs = [o for _, o in combo]
      for op in ("and", "or"):
        _, got, err = check_app(op, terms, objs)
        stats["apps"] += 1
        if err:
          if len(viol) < MAXV:
            viol.append(({"part": "term", "op": op, "args": list(terms)}, err))
        elif got in (0, FULL):
          stats["taut" if got else "contra"] += 1
        else:
          stats["contingent"] += 1


def _tern_work(i):
  """Worker: ternary And/Or with first argument = pool[i], others ranging over the whole pool."""
  pool = _G["tpool"]
  stats = {"apps": 0, "contingent": 0, "taut": 0, "contra": 0}
  viol = []
  t1, o1 = pool[i]
  for t2, o2 in pool:
    for t3, o3 in pool:
      for op in ("and", "or"):
        _, got, err = check_app(op, (t1, t2, t3), [o1, o2, o3])
        stats["apps"] += 1
        if err:
          if len(viol) < 5:
            viol.append(({"part": "term", "op": op, "args": [t1, t2, t3]}, err))
        elif got in (0, FULL):
          stats["taut" if got else "contra"] += 1
        else:
          stats["contingent"] += 1
  return stats, viol


def check_var(bspec, cterm):
  """Variable.with_condition: bspec = ((value, term), ...).  Returns error or None."""
  m = mods()
  try:
    var = m.v.Variable(tuple(m.v.Binding(v, build(t)) for v, t in bspec))
    c = build(cterm)
    out = var.with_condition(c)
    if len(out.bindings) != len(var.bindings):
      return "with_condition changed the number of bindings: %r -> %r" % (var, out)
    cm = ref_tt(cterm)
    for (v, t), b in zip(bspec, out.bindings):
      if b.value != v:
        return "with_condition changed a value: %r -> %r" % (var, out)
      got, want = tt(b.condition), ref_tt(t) & cm
      if got != want:
        diff = got ^ want
        tau = (diff & -diff).bit_length() - 1
        return "%r.with_condition(%s) = %r: binding of %r is %s under %s, expected %s" % (
            var, tstr(cterm), out, v, "active" if (got >> tau) & 1 else "inactive", assignment(tau),
            "active" if (want >> tau) & 1 else "inactive")
  except Exception as e:  # pylint: disable=broad-except
    return "Variable.with_condition raised %s: %s" % (type(e).__name__, e)
  return None


def part1(rep, tier, seed):
  levels, stats, viol = term_levels(3)
  t1 = levels[0] + levels[1]
  t2 = t1 + levels[2]
  nary_apps(levels[0], (0, 1, 3, 4), stats, viol)
  nary_apps(t1, (3,), stats, viol)
  if tier == "thorough" and not viol:
    _G["tpool"] = t2
    for _, (st, vv) in vrun.pmap(_tern_work, list(range(len(t2))), seed=seed, chunksize=2):
      for k, n in st.items():
        stats[k] += n
      viol.extend(vv)
  # Variable.with_condition
  nvar = nvar_nt = 0
  terms1 = [t for t, _ in t1]
  one = [((v, t),) for v in VALUES for t in terms1]
  two = [((v1, ta), (v2, tb)) for v1 in VALUES for v2 in VALUES for ta in terms1 for tb in terms1]
  for bspec in one + two:
    for ct in terms1:
      err = check_var(bspec, ct)
      nvar += 1
      if err:
        if len(viol) < MAXV:
          viol.append(({"part": "var", "bindings": [list(x) for x in bspec], "cond": ct}, err))
      elif 0 < ref_tt(ct) < FULL and any(ref_tt(t) & ~ref_tt(ct) & FULL for _, t in bspec):
        nvar_nt += 1
  viol.sort(key=lambda cv: (len(repr(cv[0])), repr(cv[0])))
  for case, err in viol[:MAXV]:
    rep.violation(vrun.jkey(case), err, case)
  rep.evaluations += stats["apps"] + nvar
  rep.nontrivial_extra += stats["contingent"] + nvar_nt
  rep.outcome("term:contingent", stats["contingent"])
  rep.outcome("term:tautology", stats["taut"])
  rep.outcome("term:contradiction", stats["contra"])
  rep.outcome("term:result-already-known-object", stats["simplified"])
  rep.outcome("variable.with_condition", nvar)
  rep.cov["part1"] = {
      "atoms": list(ATOMS) + ["TRUE", "FALSE"], "depth": 3,
      "distinct_objects_by_depth": [len(l) for l in levels],
      "constructor_applications": stats["apps"], "valuations": 8,
      "nary": "arity 0,1,3,4 over depth-0 terms; arity 3 over depth<=1 terms" +
              ("; arity 3 over all depth<=2 terms" if tier == "thorough" else ""),
      "variable_with_condition_cases": nvar,
  }
  return t1


# ---------------------------------------------------------------- part 2: block states

_G = {}


class Rec:
  __slots__ = ("obj", "key", "D", "C", "recipe", "depth", "loc", "fp")


def rsize(r):
  if r is None:
    return 0
  if r[0] == "init":
    return 1
  if r[0] == "merge":
    return 1 + rsize(r[1]) + rsize(r[2])
  return 1 + rsize(r[1])


def rstr(r):
  if r is None:
    return "None"
  k = r[0]
  if k == "init":
    loc = "{%s}" % ", ".join("%s: %r" % (n, v) for n, v in r[1])
    return "BlockState(%s%s)" % (loc, "" if r[2] is None else ", " + tstr(r[2]))
  if k == "store":
    return "%s.store_local(%s, %r)" % (rstr(r[1]), r[2], r[3])
  if k == "cond":
    return "%s.with_condition(%s)" % (rstr(r[1]), tstr(r[2]))
  return "%s.merge_into(%s)" % (rstr(r[1]), rstr(r[2]))


def make_init(recipe):
  m = mods()
  locals_ = {n: m.v.Variable.from_value(v) for n, v in recipe[1]}
  if recipe[2] is None:
    return m.s.BlockState(locals_)
  return m.s.BlockState(locals_, build(recipe[2]))


def ref_init(recipe):
  C = FULL if recipe[2] is None else ref_tt(recipe[2])
  d = dict(recipe[1])
  return tuple((C if d.get(n) == v else 0) for n, v in SLOTS), C


def step(recipe, ins):
  """Execute the last operation of `recipe` on live input records; returns (obj, got, want, err).

  ins: list of (obj, (D, C)) for the operand states (already cloned if the op mutates).
  """
  m = mods()
  k = recipe[0]
  try:
    if k == "init":
      obj = make_init(recipe)
      want = ref_init(recipe)
    elif k == "store":
      obj, (D, C) = ins[0]
      obj.store_local(recipe[2], m.v.Variable.from_value(recipe[3]))
      want = ref_store(D, C, recipe[2], recipe[3])
    elif k == "cond":
      s, (D, C) = ins[0]
      obj = s.with_condition(_cond_obj(recipe[2]))
      want = ref_cond(D, C, ref_tt(recipe[2]))
    elif recipe[2] is None:
      s, (D, C) = ins[0]
      obj = s.merge_into(None)
      want = (D, C)
    else:
      (a, (Da, Ca)), (b, (Db, Cb)) = ins
      obj = a.merge_into(b)
      want = ref_merge(Da, Ca, Db, Cb)
    got = den(obj)
  except Exception as e:  # pylint: disable=broad-except
    return None, None, None, "%s raised %s: %s" % (rstr(recipe), type(e).__name__, e)
  if got != want:
    return obj, got, want, explain(got, want, rstr(recipe))
  return obj, got, want, None


_COBJ = {}


def _cond_obj(term):
  o = _COBJ.get(term)
  if o is None:
    o = _COBJ[term] = build(term)
  return o


def realize(recipe, viol):
  """Rebuild a state from its recipe with public operations only, checking every step."""
  if recipe[0] == "init":
    ins = []
  elif recipe[0] == "merge" and recipe[2] is not None:
    ins = [realize(recipe[1], viol), realize(recipe[2], viol)]
  else:
    ins = [realize(recipe[1], viol)]
  if any(i is None for i in ins):
    return None
  before = [skey(o) for o, _ in ins] if recipe[0] != "store" else []
  obj, got, _, err = step(recipe, ins)
  if err:
    viol.append(err)
    return None
  for (o, _), k in zip(ins, before):
    if skey(o) != k:
      viol.append("%s mutated its operand" % rstr(recipe))
      return None
  return obj, got


class Space:
  """The set of reached states (live objects) with de-duplication."""

  def __init__(self, cmenu):
    self.recs = []
    self.index = {}
    self.cmenu = cmenu
    self.viol = []        # (size, recipe, message)
    self.trans = 0
    self.nontrivial = 0
    self.out = {}
    self.levels = []
    self.corrupt = False
    self.nonblock = 0

  def count(self, name, n=1):
    self.out[name] = self.out.get(name, 0) + n

  def bad(self, recipe, msg):
    self.viol.append((rsize(recipe), recipe, msg))

  def register(self, obj, got, recipe, depth):
    k = skey(obj)
    if k in self.index:
      return None
    r = Rec()
    r.obj, r.key, r.recipe, r.depth = obj, k, recipe, depth
    r.D, r.C = got
    r.loc = dict(obj.get_locals())
    r.fp = fp(obj)
    if set(r.loc) - obj._locals_with_block_condition:
      self.nonblock += 1
    self.index[k] = len(self.recs)
    self.recs.append(r)
    return r

  def do(self, recipe, ins, depth, fresh, kind):
    """Run one transition, check it, register the result if new."""
    if self.corrupt:   # an operation changed a stored operand: nothing after that is trustworthy
      return
    obj, got, _, err = step(recipe, [(o, (r.D, r.C)) for o, r in ins])
    self.trans += 1
    self.count(kind)
    if err:
      self.bad(recipe, err)
      return
    if recipe[0] != "store":
      for o, r in ins:
        if fp(o) != r.fp:
          self.bad(recipe, "%s mutated its operand" % rstr(recipe))
          self.corrupt = True
          return
    if any(0 < x < FULL for x in got[0]):
      self.nontrivial += 1
    if self.register(obj, got, recipe, depth) is not None:
      fresh.append(self.recs[-1])

  def unary(self, r, depth, fresh):
    for n in NAMES:
      for v in VALUES:
        self.do(("store", r.recipe, n, v), [(clone(r.obj), r)], depth, fresh, "store_local")
    for ct in self.cmenu:
      self.do(("cond", r.recipe, ct), [(r.obj, r)], depth, fresh, "with_condition")
    self.do(("merge", r.recipe, None), [(r.obj, r)], depth, fresh, "merge_into(None)")

  def merge(self, a, b, depth, fresh):
    self.do(("merge", a.recipe, b.recipe), [(a.obj, a), (b.obj, b)], depth, fresh, merge_kind(a, b))

  def integrity(self):
    """Backstop for the per-transition operand check; only speaks up if nothing else explained the damage."""
    if self.viol:
      return False
    for r in self.recs:
      try:
        same = skey(r.obj) == r.key and den(r.obj) == (r.D, r.C)
      except Exception:  # pylint: disable=broad-except
        same = False
      if not same:
        self.bad(r.recipe, "a stored state was changed by an operation applied to it or to another state: %s"
                 % rstr(r.recipe))
        return False
    return True

  def level(self, depth, nold):
    """S_depth from S_{depth-1}: unary ops on the new states, merges of every ordered pair involving a new one."""
    fresh = []
    n = len(self.recs)
    for i in range(nold, n):
      self.unary(self.recs[i], depth, fresh)
    for i in range(n):
      a = self.recs[i]
      for j in range(n):
        if i >= nold or j >= nold:
          self.merge(a, self.recs[j], depth, fresh)
    self.integrity()
    self.levels.append(len(self.recs))
    return n


def merge_kind(a, b):
  """Outcome class of a merge, from the operands' public locals only."""
  la, lb = a.loc, b.loc
  if not la and not lb:
    return "merge:no-locals"
  shared = [n for n in la if n in lb]
  if not shared:
    return "merge:disjoint-names"
  if all(la[n] == lb[n] for n in shared):
    return "merge:shared-names-equal-variables"
  if any(la[n] == lb[n] for n in shared):
    return "merge:shared-names-some-equal"
  return "merge:shared-names-different-variables"


INITS = (
    ("init", (), None),
    ("init", (("x", 1),), None),
    ("init", (), "a"),
    ("init", (("x", 1),), "a"),
)


def seed_space(sp):
  for recipe in INITS:
    obj, got, _, err = step(recipe, [])
    sp.trans += 1
    sp.count("construct")
    if err:
      sp.bad(recipe, err)
      continue
    if set(vars(obj)) != set(_ATTRS):
      raise RuntimeError("BlockState has attributes %s; the canonical key covers %s" % (sorted(vars(obj)), _ATTRS))
    sp.register(obj, got, recipe, 0)
  sp.levels.append(len(sp.recs))


# frontier: one more operation on every state of the last level, results checked but not stored.
#
# The worker pool is forked *before* the state space is built (page faults on a large copy-on-write heap are
# very slow in this sandbox), so a worker never sees the parent's live objects: it receives recipes and
# rebuilds each state with the public operations only, then verifies that the rebuilt object has the same
# canonical key (hash) and denotation as the parent's.  That is also an independent cross-check of the
# attribute-copy shortcut used for store_local in the parent.


def rebuild(recipe):
  """Replay a recipe with the public operations only (no checks)."""
  k = recipe[0]
  if k == "init":
    return make_init(recipe)
  if k == "store":
    s = rebuild(recipe[1])
    s.store_local(recipe[2], mods().v.Variable.from_value(recipe[3]))
    return s
  if k == "cond":
    return rebuild(recipe[1]).with_condition(_cond_obj(recipe[2]))
  if recipe[2] is None:
    return rebuild(recipe[1]).merge_into(None)
  return rebuild(recipe[1]).merge_into(rebuild(recipe[2]))


def ship(r):
  return (r.recipe, r.D, r.C, hash(r.key))


def unship(t):
  recipe, D, C, hk = t
  r = Rec()
  r.obj = rebuild(recipe)
  r.recipe, r.D, r.C = recipe, D, C
  r.key = None
  if hash(skey(r.obj)) != hk or den(r.obj) != (D, C):
    raise RuntimeError("replaying %s in a worker did not give the state the parent holds" % rstr(recipe))
  r.loc = dict(r.obj.get_locals())
  r.fp = fp(r.obj)
  return r


_WCACHE = {}


def _frontier_work(chunk):
  mine, partners, nold_partners, unary, cmenu = chunk
  pk = hash(partners)
  if _WCACHE.get("pk") != pk:
    _WCACHE["pk"] = pk
    _WCACHE["recs"] = [unship(t) for t in partners]
  precs = _WCACHE["recs"]
  stats = {"trans": 0, "nontrivial": 0}
  out = {}
  viol = []

  def one(recipe, ins, kind, ops=()):
    if stats.get("corrupt"):
      return
    obj, got, _, err = step(recipe, ins)
    stats["trans"] += 1
    out[kind] = out.get(kind, 0) + 1
    if not err:
      for r in ops:
        if fp(r.obj) != r.fp:
          err = "%s mutated its operand" % rstr(recipe)
          stats["corrupt"] = 1
    if err:
      if len(viol) < 10:
        viol.append((rsize(recipe), recipe, err))
    elif any(0 < x < FULL for x in got[0]):
      stats["nontrivial"] += 1

  for t in mine:
    a = unship(t)
    ia = (a.obj, (a.D, a.C))
    if unary:
      for n in NAMES:
        for v in VALUES:
          one(("store", a.recipe, n, v), [(clone(a.obj), (a.D, a.C))], "store_local")
      for ct in cmenu:
        one(("cond", a.recipe, ct), [ia], "with_condition", (a,))
      one(("merge", a.recipe, None), [ia], "merge_into(None)", (a,))
    for j, b in enumerate(precs):
      ib = (b.obj, (b.D, b.C))
      one(("merge", a.recipe, b.recipe), [ia, ib], merge_kind(a, b), (a, b))
      if j < nold_partners:   # (b, a) with b itself in the frontier range is visited from b's side
        one(("merge", b.recipe, a.recipe), [ib, ia], merge_kind(b, a), (a, b))
  return stats, out, viol


def bounds(tier):
  if tier == "quick":
    return {"depth": 2, "pairs_once_more": True, "frontier_partners_depth": None}
  return {"depth": 3, "pairs_once_more": False, "frontier_partners_depth": 1}


def _dbg(what):
  if os.environ.get("VERIF_C18_DEBUG"):
    import time
    print("  .. c18 %s at %.1f" % (what, time.time()), file=sys.stderr, flush=True)


def part2(rep, tier, seed, cmenu):
  b = bounds(tier)
  if os.environ.get("VERIF_C18_DEPTH"):
    b["depth"] = int(os.environ["VERIF_C18_DEPTH"])
  import time
  t_start = time.time()
  want_frontier = b["pairs_once_more"] or b["frontier_partners_depth"] is not None
  pool = vrun.Pool(_frontier_work) if want_frontier else None   # forked now, while the heap is small
  try:
    sp = Space(cmenu)
    seed_space(sp)
    nold = 0
    for d in range(1, b["depth"] + 1):
      if sp.viol:
        break
      nold = sp.level(d, nold)
    states = len(sp.recs)
    _G["t_levels"] = round(time.time() - t_start, 1)
    _dbg("levels done")
    t_start = time.time()
    extra = {"trans": 0, "nontrivial": 0}
    fr = None
    if not sp.viol and want_frontier:
      lo0 = nold
      if b["pairs_once_more"]:
        # every ordered pair with at least one state of the last level, merged once more (not stored)
        npart = states
      else:
        npart = sp.levels[b["frontier_partners_depth"]]
      partners = tuple(ship(r) for r in sp.recs[:npart])
      step_ = max(1, min(400, (states - lo0) // (vrun.NPROC * 6) or 1))
      chunks = [(tuple(ship(r) for r in sp.recs[lo:lo + step_]), partners, min(lo0, npart), True, cmenu)
                for lo in range(lo0, states, step_)]
      for _, (st, out, vv) in pool.map(chunks, seed=seed, chunksize=1):
        for k, n in st.items():
          extra[k] = extra.get(k, 0) + n
        for k, n in out.items():
          sp.count(k, n)
        sp.viol.extend(vv)
      del chunks
      fr = {"from_states": states - lo0, "partners": npart, "both_orders": True, "unary_ops": True,
            "states_rebuilt_from_recipe_in_workers": True, "transitions": extra["trans"]}
  finally:
    if pool is not None:
      pool.close()
  _G["t_frontier"] = round(time.time() - t_start, 1)
  _dbg("frontier done")
  sp.viol.sort(key=lambda x: (x[0], repr(x[1])))
  seenk = set()
  for _, recipe, msg in sp.viol:
    case = {"part": "state", "recipe": recipe}
    k = vrun.jkey(case)
    if k in seenk:
      continue
    seenk.add(k)
    if len(seenk) > MAXV:
      break
    rep.violation(k, msg, case)
  _dbg("violations listed")
  trans = sp.trans + extra["trans"]
  rep.evaluations += trans
  rep.nontrivial_extra += sp.nontrivial + extra["nontrivial"]
  for k, n in sorted(sp.out.items()):
    rep.outcome(k, n)
  _dbg("outcomes done")
  nonblock = sp.nonblock
  rep.outcome("states-with-explicitly-conditioned-locals", nonblock)
  _dbg("nonblock done")
  rep.cov["bounds"] = ("tier=%s: condition terms to depth 3 over {a,b,c,TRUE,FALSE}, 8 assignments; block states over "
                       "names {x,y}, values {1,2}, %d initial states, %d with_condition operands (depth-1 terms), "
                       "levels S_0..S_%d complete, one further operation on the last level (see part2.frontier)"
                       % (tier, len(INITS), len(cmenu), len(sp.levels) - 1))
  rep.cov.update({
      "states": states, "transitions": trans, "traces_validated_against_impl": trans,
      "states_by_depth": sp.levels,
      "part2": {"names": list(NAMES), "values": list(VALUES),
                "initial_states": [rstr(r) for r in INITS],
                "condition_menu": [tstr(t) for t in cmenu],
                "depth_complete": len(sp.levels) - 1, "frontier": fr},
  })
  _dbg("cov done")
  if sp.recs:
    deep = [r for r in sp.recs if r.depth == len(sp.levels) - 1 and r.recipe[0] == "merge" and r.recipe[2]]
    for r in deep[:: max(1, len(deep) // 3)][:3]:
      rep.sample({"history": rstr(r.recipe), "state": repr(r.obj)})


def run(rep, tier, seed):
  mods()
  import gc
  import time
  t0 = time.time()
  _dbg("start")
  # Nothing here builds reference cycles (conditions, bindings, variables, states and recipes are trees), and
  # the cyclic collector's full passes over ~10^7 live objects dominate the run otherwise.
  gc.disable()
  try:
    part1(rep, tier, seed)
    _dbg("part1 done")
    t1 = time.time()
    part2(rep, tier, seed, CMENU)
  finally:
    gc.enable()
  _dbg("part2 returned")
  rep.cov["phase_wall_s"] = {"part1": round(t1 - t0, 1), "part2": round(time.time() - t1, 1),
                             "part2_levels": _G.pop("t_levels", None), "part2_frontier": _G.pop("t_frontier", None)}
  _G.clear()
  rep.rule = ("part 1: every application of Not/And/Or to distinct condition objects (de-duplicated structurally) "
              "is compared with not/and/or on all 8 assignments; non-trivial = result is contingent (neither "
              "tautology nor contradiction); Variable.with_condition non-trivial = contingent condition that "
              "switches some binding off.  part 2: every transition executes the real BlockState method and its "
              "denotation is compared with the reference transition on all 8 assignments; non-trivial = the "
              "result has a local value whose presence depends on the assignment")
  rep.sample({"term": "And(Or(a, b), Not(a))", "check": "truth table == (a or b) and not a on 8 assignments"})
  rep.assumptions += [
      "a condition object means: Atom -> its variable, TRUE/FALSE, _Not -> negation, _And/_Or -> all/any of .conditions",
      "a block state means den(S) as in the module docstring (block condition guards exactly the names in "
      "_locals_with_block_condition); private attributes _condition and _locals_with_block_condition are read, "
      "locals through get_locals()",
      "states are constructed only with the public defaults BlockState(locals_[, condition])",
      "equal canonical key => equal behaviour (argument in the module docstring); in the parent store_local is "
      "applied to a harness-made attribute copy and all other operations to the stored live object; workers "
      "rebuild every state from its history with public operations only and must get the same key and denotation",
      "with_condition operands are 9 of the 16 depth-1 condition objects (one per shape up to renaming of atoms, "
      "plus c, TRUE, FALSE); with all 16 the depth-2 level has 2 412 states and depth 3 is out of budget",
      "the block condition of a merge / with_condition result is also compared (or / and), because store_local's "
      "meaning depends on it",
      "depth 4 (all pairs of depth-3 states, 3.3e10 merges) is out of reach; the thorough tier covers depth 3 "
      "completely plus one more operation on every depth-3 state (merges against the depth<=1 states only)",
  ]


def replay(case):
  mods()
  case = dict(case)
  part = case["part"]
  if part == "term":
    args = tuple(tup(a) for a in case["args"])
    _, _, err = check_app(case["op"], args)
    errs = [err] if err else []
  elif part == "var":
    err = check_var(tuple((v, tup(t)) for v, t in case["bindings"]), tup(case["cond"]))
    errs = [err] if err else []
  else:
    errs = []
    realize(tup(case["recipe"]), errs)
  key = vrun.jkey({k: case[k] for k in case})
  return [{"key": key, "summary": e} for e in errs[:1]]
