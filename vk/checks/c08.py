"""C08: solver answers do not depend on what was asked or built before.

Explicit-state exploration of histories (mutations + cache-warming queries) on
a live cfg.Program.  In every state reached, every query of the alphabet is
asked on the live program and must equal the answer of a replica rebuilt from
scratch by replaying the mutations only (one fresh replica per query).
"""

import itertools

from vk import boot, explore, run as vrun

ID = "C08"
LEVEL = "model_checking"
ASAN = {}  # ASan build is too slow for this space; C09 thorough runs under ASan

DATA = ("p", "q")


class Live:
  __slots__ = ("prog", "nodes", "vars", "warm")

  def bindings(self):
    bs = []
    for v in self.vars_all():
      bs.extend(v.bindings)
    bs.sort(key=lambda b: b.id)
    return bs

  def vars_all(self):
    return self.vars


def apply(s, op):
  k = op[0]
  if k == "node":
    s.nodes.append(s.prog.NewCFGNode("n"))
  elif k == "cnew":
    cond = None if op[2] is None else s.bindings()[op[2]]
    if cond is None:
      s.nodes.append(s.nodes[op[1]].ConnectNew("n"))
    else:
      s.nodes.append(s.nodes[op[1]].ConnectNew("n", cond))
  elif k == "conn":
    s.nodes[op[1]].ConnectTo(s.nodes[op[2]])
  elif k == "var":
    s.vars.append(s.prog.NewVariable())
  elif k == "bind":
    _, v, d, where, ss = op
    bs = s.bindings()
    s.vars[v].AddBinding(DATA[d], [bs[i] for i in ss], s.nodes[where])
  elif k == "origin":
    _, bi, where, ss = op
    bs = s.bindings()
    bs[bi].AddOrigin(s.nodes[where], [bs[i] for i in ss])
  elif k == "paste":
    _, v, bi, where, addl = op
    bs = s.bindings()
    w = None if where is None else s.nodes[where]
    if addl:
      s.vars[v].PasteBinding(bs[bi], w, [bs[i] for i in addl])
    else:
      s.vars[v].PasteBinding(bs[bi], w)
  elif k == "pastevar":
    _, v, v2, where = op
    w = None if where is None else s.nodes[where]
    s.vars[v].PasteVariable(s.vars[v2], w)
  elif k == "pastenew":
    _, v, bi, d = op
    s.vars[v].PasteBindingWithNewData(s.bindings()[bi], DATA[d])
  elif k == "assignv":
    _, v, where = op
    s.vars.append(s.vars[v].AssignToNewVariable(None if where is None else s.nodes[where]))
  elif k == "assignb":
    _, bi, where = op
    s.vars.append(s.bindings()[bi].AssignToNewVariable(None if where is None else s.nodes[where]))
  elif k == "cond":
    _, n, bi = op
    s.nodes[n].condition = None if bi is None else s.bindings()[bi]
  elif k == "q":
    _, n, S = op
    bs = s.bindings()
    s.nodes[n].HasCombination([bs[i] for i in S])
  elif k == "qf":
    _, n, v = op
    s.vars[v].Filter(s.nodes[n], True)
  else:
    raise ValueError(op)


def structure(s):
  """Canonical structural key read back through public attributes."""
  bs = s.bindings()
  nodes = tuple((tuple(m.id for m in n.outgoing), tuple(m.id for m in n.incoming),
                 None if n.condition is None else n.condition.id,
                 tuple(b.id for b in n.bindings)) for n in s.nodes)
  vars_ = tuple(tuple((b.id, b.data,
                       tuple((o.where.id, tuple(sorted(tuple(sorted(x.id for x in ss)) for ss in o.source_sets)))
                             for o in b.origins))
                      for b in v.bindings) for v in s.vars)
  return (nodes, vars_)


def is_query(op):
  return op[0] in ("q", "qf")


def queries(s, kmax):
  bs = s.bindings()
  out = []
  for n in range(len(s.nodes)):
    for k in range(1, kmax + 1):
      for S in itertools.combinations(range(len(bs)), k):
        out.append(("q", n, S))
  return out


def ask_all(s, kmax):
  """Answers of every observation in the alphabet on this live object."""
  bs = s.bindings()
  ans = {}
  for n, node in enumerate(s.nodes):
    for k in range(1, kmax + 1):
      for S in itertools.combinations(range(len(bs)), k):
        ans[("has", n, S)] = node.HasCombination([bs[i] for i in S])
    for vi, v in enumerate(s.vars):
      ans[("filter", n, vi)] = tuple(b.id for b in v.Filter(node, True))
      ans[("bindings", n, vi)] = tuple(b.id for b in v.Bindings(node))
    for i, b in enumerate(bs):
      ans[("visible", n, i)] = b.IsVisible(node)
  return ans


def ask_one(s, obs):
  bs = s.bindings()
  kind, n, x = obs
  node = s.nodes[n]
  if kind == "has":
    return node.HasCombination([bs[i] for i in x])
  if kind == "filter":
    return tuple(b.id for b in s.vars[x].Filter(node, True))
  if kind == "bindings":
    return tuple(b.id for b in s.vars[x].Bindings(node))
  if kind == "visible":
    return bs[x].IsVisible(node)
  raise ValueError(obs)


class Hist(explore.Model):

  def __init__(self, max_nodes, max_vars, max_bindings, max_warm, kmax=2,
               rich=False):
    self.max_nodes, self.max_vars, self.max_bindings = max_nodes, max_vars, max_bindings
    self.max_warm, self.kmax, self.rich = max_warm, kmax, rich
    self._fresh = {}

  def build(self, hist, mutations_only=False):
    cfg = boot.load()
    s = Live()
    s.prog = cfg.Program()
    s.nodes = [s.prog.NewCFGNode("n0")]
    s.vars = []
    s.warm = []
    for op in hist:
      if is_query(op):
        if mutations_only:
          continue
        s.warm.append((op, hash(structure(s))))
      apply(s, op)
    return s

  def apply(self, s, op):
    if is_query(op):
      s.warm.append((op, hash(structure(s))))
    apply(s, op)

  def enabled(self, s, hist):
    nn, nv = len(s.nodes), len(s.vars)
    bs = s.bindings()
    nb = len(bs)
    ops = []
    R = range
    if nn < self.max_nodes:
      ops.append(("node",))
      ops += [("cnew", a, None) for a in R(nn)]
      if self.rich:
        ops += [("cnew", a, bi) for a in R(nn) for bi in R(nb)]
    ops += [("conn", a, b) for a in R(nn) for b in R(nn)
            if a != b and s.nodes[b] not in s.nodes[a].outgoing]
    if nv < self.max_vars:
      ops.append(("var",))
    sss = [()] + [(i,) for i in R(nb)]
    if self.rich:
      sss += [(i, j) for i in R(nb) for j in R(i + 1, nb)]
    datas_of = [set(b.data for b in v.bindings) for v in s.vars]
    for v in R(nv):
      for d in R(len(DATA)):
        if DATA[d] not in datas_of[v] and nb >= self.max_bindings:
          continue
        ops += [("bind", v, d, w, ss) for w in R(nn) for ss in sss]
    for bi in R(nb):
      ops += [("origin", bi, w, ss) for w in R(nn) for ss in sss]
    for v in R(nv):
      for bi in R(nb):
        if bs[bi].data not in datas_of[v] and nb >= self.max_bindings:
          continue
        ops += [("paste", v, bi, w, ()) for w in [None] + list(R(nn))]
        if self.rich:
          ops += [("paste", v, bi, w, (j,)) for w in [None] + list(R(nn)) for j in R(nb)]
      for v2 in R(nv):
        if v2 != v and nb + len(s.vars[v2].bindings) <= self.max_bindings + 1:
          ops += [("pastevar", v, v2, w) for w in [None] + list(R(nn))]
      for bi in R(nb):
        for d in R(len(DATA)):
          if DATA[d] in datas_of[v] or nb < self.max_bindings:
            ops.append(("pastenew", v, bi, d))
    if nv < self.max_vars:
      for v in R(nv):
        if nb + len(s.vars[v].bindings) <= self.max_bindings:
          ops += [("assignv", v, w) for w in [None] + list(R(nn))]
      if nb < self.max_bindings:
        for bi in R(nb):
          ops += [("assignb", bi, w) for w in [None] + list(R(nn))]
    for n in R(nn):
      cur = s.nodes[n].condition
      for bi in R(nb):
        if cur is None or cur.id != bs[bi].id:
          ops.append(("cond", n, bi))
      if cur is not None:
        ops.append(("cond", n, None))
    if sum(1 for op in hist if is_query(op)) < self.max_warm:
      ops += queries(s, self.kmax)
      ops += [("qf", n, v) for n in R(nn) for v in R(nv)]
    return ops

  def canon(self, s, hist):
    return (structure(s), tuple(s.warm))

  def fresh_answers(self, hist):
    muts = tuple(op for op in hist if not is_query(op))
    ans = self._fresh.get(muts)
    if ans is None:
      s = self.build(muts)
      obs = list(ask_all(s, self.kmax).keys())
      ans = {}
      for o in obs:
        ans[o] = ask_one(self.build(muts), o)
      if len(self._fresh) > 20000:
        self._fresh.clear()
      self._fresh[muts] = ans
    return ans

  def check(self, s, hist):
    if not any(is_query(op) for op in hist):
      # no query was ever asked: the live object *is* a fresh replica; still
      # compare the all-queries-in-sequence answers with the one-per-replica ones
      pass
    fresh = self.fresh_answers(hist)
    live1 = ask_all(s, self.kmax)
    bad = []
    for o, a in live1.items():
      if a != fresh[o]:
        bad.append("%s -> %s on the long-lived program, %s on a fresh replica" % (list(o), a, fresh[o]))
    if not bad:
      live2 = ask_all(s, self.kmax)
      for o, a in live2.items():
        if a != live1[o]:
          bad.append("%s flipped from %s to %s when asked again" % (list(o), live1[o], a))
    if bad:
      return [(vrun.jkey(list(hist)), "history %s: %s" % ([list(x) for x in hist], bad[0]))]
    return []


def bounds(tier):
  """List of (model bounds, depth) explorations for a tier."""
  small = dict(max_nodes=2, max_vars=2, max_bindings=2, max_warm=1, kmax=2, rich=False)
  if tier == "quick":
    return [(small, 6)]
  return [(small, 7),
          (dict(max_nodes=3, max_vars=2, max_bindings=3, max_warm=2, kmax=2, rich=False), 6),
          (dict(max_nodes=3, max_vars=2, max_bindings=3, max_warm=1, kmax=2, rich=True), 5)]


# ---------------------------------------------------------------- query histories on enumerated graphs
#
# The BFS above starts from the empty program, so within its depth it only reaches small structures.
# This phase starts from non-initial states: every typegraph of C07's cyclic / conditioned families is
# built, and ALL queries of the alphabet are asked on one long-lived program in forward order, on a
# second one in reverse order, and each on its own freshly built program; the three answers must agree
# and re-asking on the long-lived programs must not flip.


VIOL_CAP = 10 ** 9


def graph_items(tier):
  from vk.checks import c07
  items = []

  def add(n, b, v, cyclic, D, maxcond, only=None):
    for es in c07.edge_sets(n, cyclic):
      for va in c07.rgs(b, v):
        if only is None or va in only:
          items.append((n, es, va, D, maxcond))
  if tier == "quick":
    add(3, 2, 2, True, 1, 1)
    add(2, 3, 2, True, 2, 1)
    add(3, 3, 2, False, 1, 1)
  else:
    add(3, 3, 3, True, 2, 1, only=[(0, 1, 2)])
    add(3, 2, 2, True, 2, 2)
    add(2, 3, 2, True, 2, 2)
    add(3, 3, 2, False, 2, 1)
    add(4, 2, 2, True, 1, 1)
  return items


def _order_check(spec, st, viol):
  from vk import tg
  n, b = spec["n"], len(spec["vars"])
  st["graphs"] += 1
  queries = [(q, S) for q in range(n) for S in tg.subsets(range(b), 2)]
  ga = tg.build(spec)
  fwd = [ga.nodes[q].HasCombination([ga.bobjs[i] for i in S]) for q, S in queries]
  gb = tg.build(spec)
  rev = [gb.nodes[q].HasCombination([gb.bobjs[i] for i in S]) for q, S in reversed(queries)][::-1]
  again = [ga.nodes[q].HasCombination([ga.bobjs[i] for i in S]) for q, S in queries]
  st["queries"] += 3 * len(queries)
  for k, (q, S) in enumerate(queries):
    gf = tg.build(spec)
    fresh = gf.nodes[q].HasCombination([gf.bobjs[i] for i in S])
    st["queries"] += 1
    st["true"] += bool(fresh)
    if not (fwd[k] == rev[k] == again[k] == fresh):
      if len(viol) < VIOL_CAP:
        viol.append((spec, "HasCombination(n%d, %s): fresh program %s, after %d earlier queries %s, after the %d later "
                           "queries (reverse order) %s, asked again %s" % (q, list(S), fresh, k, fwd[k],
                                                                           len(queries) - 1 - k, rev[k], again[k]),
                     {"q": q, "S": list(S)}))
      break


def graph_work(item):
  from vk.checks import c07
  st = {"graphs": 0, "queries": 0, "true": 0}
  viol = []
  if item[0] == "ss":
    for spec in ss_specs(item):
      _order_check(spec, st, viol)
    return st, viol
  n, edges, vars_, D, maxcond = item
  for origins, conds in c07.specs_for(item):
    _order_check(c07.to_spec(n, edges, vars_, origins, conds), st, viol)
  return st, viol


# Source-set family: every binding has ONE origin (any node) whose single source set is any set of <=2 other
# bindings, and at most one node carries a condition (any binding).  The deviation-bounded families above reach a
# two-member source set plus a condition only at D=3; this family has them all on graphs with two routes between
# the first and the last node (a conditioned node can be by-passed), the shape the solver's path cache is about.


def ss_items(tier):
  from vk.checks import c07
  items = []
  if tier == "quick":
    base = {(0, 1), (0, 2), (1, 3), (2, 3)}
    for extra in ((), ((0, 3),), ((1, 2),), ((0, 3), (1, 2))):
      es = tuple(sorted(base | set(extra)))
      for placement in itertools.product(range(4), repeat=3):
        items.append(("ss", 4, es, (0, 1, 2), placement))
  else:
    for es in c07.edge_sets(4, False):
      if len(es) < 4:
        continue
      for va in ((0, 1, 2), (0, 0, 1)):
        for placement in itertools.product(range(4), repeat=3):
          items.append(("ss", 4, es, va, placement))
  return items


def ss_specs(item):
  _, n, edges, vars_, placement = item
  b = len(vars_)
  choices = []
  for i in range(b):
    others = [j for j in range(b) if j != i]
    choices.append([()] + [(j,) for j in others] + [tuple(c) for c in itertools.combinations(others, 2)])
  condopts = [{}] + [{str(m): j} for m in range(n) for j in range(b)]
  for sss in itertools.product(*choices):
    origins = [[[placement[i], [sorted(sss[i])]]] for i in range(b)]
    for conds in condopts:
      yield {"n": n, "edges": [list(e) for e in edges], "vars": list(vars_), "origins": origins, "conds": conds}


# ---------------------------------------------------------------- one mutation after a warm cache, from enumerated graphs
#
# Third phase (non-initial states x mutations): every typegraph of a family is built, the solver's caches are
# warmed with ALL queries of the alphabet, then ONE mutation of the full alphabet is applied (an edge between any
# two nodes - including shortcuts between nodes that are already connected and back edges -, a new node, a
# condition set / changed / cleared, a new origin with or without a source set on any binding, a new binding on
# any variable, PasteBinding), and ALL queries are asked again; a replica that was built, mutated the same way and
# never queried before must give the same answers.  The BFS from the empty program cannot reach these states
# within its depth (a 3-node path with two bindings and a query is already 7 operations).


def mut_items(tier):
  from vk.checks import c07
  items = []

  def add(n, b, v, cyclic, D, maxcond):
    for es in c07.edge_sets(n, cyclic):
      for va in c07.rgs(b, v):
        items.append((n, es, va, D, maxcond))
  if tier == "quick":
    add(3, 2, 2, False, 1, 1)
    add(2, 2, 2, True, 1, 1)
    add(4, 2, 1, False, 0, 0)
  else:
    add(3, 2, 2, True, 1, 1)
    add(3, 3, 2, False, 1, 1)
    add(4, 2, 2, False, 1, 1)
    add(4, 3, 3, False, 0, 0)
  return items


def _mutations(spec):
  n, b = spec["n"], len(spec["vars"])
  nv = max(spec["vars"]) + 1 if spec["vars"] else 0
  edges = {tuple(e) for e in spec["edges"]}
  conds = {int(k): v for k, v in spec["conds"].items()}
  out = [("conn", a, c) for a in range(n) for c in range(n) if a != c and (a, c) not in edges]
  out += [("cnew", a) for a in range(n)]
  out += [("node",)] + [("cnewc", a, j) for a in range(n) for j in range(b)]
  out += [("bindold", i, m, ss) for i in range(b) for m in range(n) for ss in ([()] + [(j,) for j in range(b) if j != i])]
  for m in range(n):
    out += [("cond", m, j) for j in range(b) if conds.get(m) != j]
    if m in conds:
      out.append(("cond", m, None))
  sss = [()] + [(j,) for j in range(b)]
  out += [("origin", i, m, ss) for i in range(b) for m in range(n) for ss in sss]
  out += [("bindnew", v, m, ss) for v in range(nv) for m in range(n) for ss in sss]
  out += [("paste", v, i, m) for v in range(nv) for i in range(b) for m in [None] + list(range(n))]
  return out


def _mutate(g, op):
  k = op[0]
  if k == "conn":
    g.nodes[op[1]].ConnectTo(g.nodes[op[2]])
  elif k == "cnew":
    g.nodes.append(g.nodes[op[1]].ConnectNew("new"))
  elif k == "node":
    g.nodes.append(g.prog.NewCFGNode("new"))
  elif k == "cnewc":
    g.nodes.append(g.nodes[op[1]].ConnectNew("new", g.bobjs[op[2]]))
  elif k == "bindold":   # AddBinding with data the variable already holds: a further origin through the variable
    i = op[1]
    g.vobjs[g.vars[i]].AddBinding(g.bobjs[i].data, [g.bobjs[j] for j in op[3]], g.nodes[op[2]])
  elif k == "cond":
    g.nodes[op[1]].condition = None if op[2] is None else g.bobjs[op[2]]
  elif k == "origin":
    g.bobjs[op[1]].AddOrigin(g.nodes[op[2]], [g.bobjs[j] for j in op[3]])
  elif k == "bindnew":
    g.bobjs.append(g.vobjs[op[1]].AddBinding("new", [g.bobjs[j] for j in op[3]], g.nodes[op[2]]))
  elif k == "paste":
    g.vobjs[op[1]].PasteBinding(g.bobjs[op[2]], None if op[3] is None else g.nodes[op[3]])
    known = {x.id for x in g.bobjs}
    g.bobjs += sorted((x for x in g.vobjs[op[1]].bindings if x.id not in known), key=lambda x: x.id)
  else:
    raise ValueError(op)


def _ask(g, kmax=2):
  from vk import tg
  nodes, bobjs = g.nodes, g.bobjs
  return [(q, S, nodes[q].HasCombination([bobjs[i] for i in S]))
          for q in range(len(nodes)) for S in tg.subsets(range(len(bobjs)), kmax)]


def mut_check(spec, op):
  """None, or a summary of the first query that differs after `op` between a warmed and a never-queried program."""
  from vk import tg
  live = tg.build(spec)
  live.nodes, live.bobjs = list(live.nodes), list(live.bobjs)
  _ask(live)
  _mutate(live, op)
  got = _ask(live)
  fresh = tg.build(spec)
  fresh.nodes, fresh.bobjs = list(fresh.nodes), list(fresh.bobjs)
  _mutate(fresh, op)
  want = _ask(fresh)
  for (q, S, a), (_, _, w) in zip(got, want):
    if a != w:
      return ("after all queries were asked and then %s: HasCombination(n%d, %s) = %s on the long-lived program, %s on "
              "a replica that was never queried before" % (list(op), q, list(S), a, w)), len(got)
  return None, len(got)


def mut_work(item):
  from vk.checks import c07
  n, edges, vars_, D, maxcond = item
  st = {"graphs": 0, "mutations": 0, "queries": 0}
  viol = []
  for origins, conds in c07.specs_for(item):
    spec = c07.to_spec(n, edges, vars_, origins, conds)
    st["graphs"] += 1
    for op in _mutations(spec):
      bad, nq = mut_check(spec, op)
      st["mutations"] += 1
      st["queries"] += 3 * nq
      if bad and len(viol) < 50:
        viol.append((spec, op, bad))
  return st, viol


def run(rep, tier, seed):
  import os
  boot.load()
  states = trans = 0
  blist = bounds(tier)
  if os.environ.get("VERIF_C08_ONLY"):
    blist = [blist[int(os.environ["VERIF_C08_ONLY"])]]
  allb = []
  for kw, depth in blist:
    depth = int(os.environ.get("VERIF_C08_DEPTH", depth))
    m = Hist(**kw)
    st, tr, lv = explore.bfs(m, [()], depth, rep, seed=seed, label="c08")
    states += st
    trans += tr
    allb.append({"bounds": dict(kw, depth=depth), "states": st, "transitions": tr, "levels": lv})
  # non-initial states: enumerated graphs x query orders
  gtot = {"graphs": 0, "queries": 0, "true": 0}
  if not os.environ.get("VERIF_C08_ONLY"):
    for item, (st, viol) in vrun.pmap(graph_work, graph_items(tier) + ss_items(tier), seed=seed, chunksize=1):
      for k2, v2 in st.items():
        gtot[k2] += v2
      for spec, summ, extra in viol:
        rep.violation(vrun.jkey({"graph": spec, "query": extra}), "query order on an enumerated graph: " + summ,
                      {"kind": "graph-queries", "spec": spec, "query": extra})
    mtot = {"graphs": 0, "mutations": 0, "queries": 0}
    for item, (st, viol) in vrun.pmap(mut_work, mut_items(tier), seed=seed, chunksize=1):
      for k2, v2 in st.items():
        mtot[k2] += v2
      for spec, op, summ in viol:
        rep.violation(vrun.jkey({"graph": spec, "mutation": list(op)}), "mutation after a warm cache: " + summ,
                      {"kind": "graph-mutation", "spec": spec, "op": list(op)})
    states += mtot["mutations"]
    trans += mtot["mutations"]
    rep.outcome("graph-mutations", mtot["mutations"])
    rep.cov["mutation_after_warm_cache_phase"] = dict(
        mtot, what="every graph of the families (see mut_items) x every single mutation of the alphabet (edge between "
                   "any two nodes, new node, unconnected new node, new node with a condition, condition set/changed/cleared, new origin, new binding, "
                   "AddBinding of existing data, PasteBinding) applied after ALL queries were asked; all queries re-asked and compared with a never-queried replica")
    states += gtot["queries"]
    trans += gtot["queries"]
    rep.outcome("graph-queries-true", gtot["true"])
    rep.outcome("graph-queries", gtot["queries"])
  rep.cov.update({"states": states, "transitions": trans, "traces_validated_against_impl": trans,
                  "explorations": allb,
                  "enumerated_graph_phase": dict(gtot, families=[list(map(str, it[:1] + it[2:])) for it in graph_items(tier)[:0]],
                                                 what="every graph of the families (see graph_items) x all HasCombination queries "
                                                      "(|S|<=2) asked forward on one program, in reverse on a second, each on a fresh "
                                                      "program, and again on the first")})
  rep.evaluations = trans
  rep.nontrivial_extra = states
  rep.outcome("states", states)
  rep.outcome("transitions", trans)
  rep.rule = ("state = (structure read back through public attributes, ordered cache-warming queries with the "
              "structure hash at the time they were asked); each transition executes one real API call on a "
              "Program rebuilt from scratch; in each state every HasCombination(|S|<=2)/IsVisible/Filter/Bindings "
              "observation is compared with a one-query fresh replica and asked twice")
  rep.sample({"history": [["var"], ["bind", 0, 0, 0, []], ["q", 0, [0]], ["cond", 0, 0]],
              "check": "all observations on the live program == fresh replica"})
  rep.assumptions += ["deviation bound: at most max_warm cache-warming queries per history",
                      "state merging assumes structure + warm-query list determine the C++ state (reachability matrix "
                      "is a function of the edges, checked by C09)"]


def replay(case):
  if case.get("kind") == "graph-mutation":
    boot.load()
    bad, _ = mut_check(case["spec"], tuple(tuple(x) if isinstance(x, list) else x for x in case["op"]))
    return [{"key": vrun.jkey({"graph": case["spec"], "mutation": list(case["op"])}),
             "summary": "mutation after a warm cache: " + bad}] if bad else []
  boot.load()
  if case.get("kind") == "graph-queries":
    from vk import tg
    spec = case["spec"]
    n, b = spec["n"], len(spec["vars"])
    queries = [(q, S) for q in range(n) for S in tg.subsets(range(b), 2)]
    ga, gb = tg.build(spec), tg.build(spec)
    fwd = [ga.nodes[q].HasCombination([ga.bobjs[i] for i in S]) for q, S in queries]
    rev = [gb.nodes[q].HasCombination([gb.bobjs[i] for i in S]) for q, S in reversed(queries)][::-1]
    for k, (q, S) in enumerate(queries):
      gf = tg.build(spec)
      fresh = gf.nodes[q].HasCombination([gf.bobjs[i] for i in S])
      if not (fwd[k] == rev[k] == fresh):
        return [{"key": vrun.jkey({"graph": spec, "query": {"q": q, "S": list(S)}}),
                 "summary": "HasCombination(n%d, %s): fresh %s, forward %s, reverse %s" % (q, list(S), fresh, fwd[k], rev[k])}]
    return []
  hist = tuple(_tup(op) for op in case["history"])
  m = Hist(max_nodes=9, max_vars=9, max_bindings=9, max_warm=9, kmax=2)
  s = m.build(hist)
  v = m.check(s, hist)
  return [{"key": k, "summary": summ} for k, summ in v]


def _tup(x):
  return tuple(_tup(y) for y in x) if isinstance(x, list) else x
