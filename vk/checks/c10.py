"""C10: class linearisation agrees with CPython's MRO.

Every class hierarchy within the bound (class i picks an ordered tuple of <= B
bases among classes 0..i-1, repeats allowed; every legal prefix extended by
every possible next class) is checked on four routes against CPython:

  S  source program through the VM: [mro-error] on a class line iff CPython
     refuses that class statement; `CK.p_XY` / `CK().p_XY` has the type of the
     definition CPython finds first (p_XY is an int in CX and a str in CY,
     q_X a float in CX only), [attribute-error] iff CPython raises AttributeError.
  P  the same hierarchy written as a stub `<mod>.pyi`, read by a module
     `import <mod>; t_K = <mod>.CK; c_K_XY = <mod>.CK.p_XY ...`.
  D  mro.GetBasesInMRO called on the classes of that stub as the loader
     resolved it, compared with CK.__mro__[1:].
  M  the row-level pipeline (mro.CheckDuplicateBases + mro.MROMerge) called directly on the rows pytype builds (compute_mro shape
     [[K]] + base MROs + [bases], GetBasesInMRO shape base MROs + [bases]),
     on a larger bound.

The oracle is CPython itself: the program's class statements and reads are
exec'd chunk by chunk (TypeError / AttributeError / type(value)), and
type(name, bases, {}).__mro__ for the bare hierarchies.

A violation is keyed on (route, kind, minimal hierarchy).  The enumerated
space is closed under dropping a class or a base entry, so the minimal
hierarchy is found by greedy descent through the set of failing cases that
the run itself established (no extra analyses), and then confirmed with a
fresh loader.
"""

import ast as pyast
import gc
import itertools
import os
import shutil
import tempfile

from vk import boot, pt, run as vrun

ID = "C10"
LEVEL = "exploration"
NEEDS_EXT = True

OBJ = -1   # stands for `object` in pure-function rows

# tier -> program levels (n, max bases, reads) and pure-function bound (n, max bases)
BOUNDS = {
    "quick": {"programs": [(1, 3, "all"), (2, 3, "all"), (3, 3, "all"), (4, 3, "all"), (3, 2, "all", "obj")],
              "pure": (5, 3), "deep": [(7, 2, 2), (6, 2, 3)]},
    "thorough": {"programs": [(1, 3, "all"), (2, 3, "all"), (3, 3, "all"), (4, 3, "all"),
                              (5, 2, "all"), (3, 3, "all", "obj"), (4, 2, "all", "obj")],
                 "pure": (6, 3), "deep": [(8, 2, 2), (7, 2, 3), (6, 3, 3)]},
}

TYPE_OF = {"int": "1", "str": "''", "float": "1.5"}


# ---------------------------------------------------------------- the space


def base_tuples(i, maxb, obj=False, window=None):
  """Every ordered tuple of <= maxb bases among classes 0..i-1 (repeats allowed).

  obj=True adds an explicitly written `object` (OBJ) to the alphabet of bases; window=w restricts the
  bases of class i to the w most recently defined classes (deep, narrow hierarchies).
  """
  alphabet = list(range(max(0, i - window) if window else 0, i)) + ([OBJ] if obj else [])
  for k in range(maxb + 1):
    yield from itertools.product(alphabet, repeat=k)


def _bn(b):
  return "object" if b == OBJ else "C%d" % b


def _bc(classes, b):
  return object if b == OBJ else classes[b]


def cpython_classes(hier):
  """Builds the bare hierarchy under CPython.

  Returns (mros, refused): mros[k] = CPython's linearisation of class k as class
  indices (object omitted) for every class up to the first refused one;
  refused = (index, message) of the first class CPython refuses, or None.
  """
  classes, mros = [], []
  for i, t in enumerate(hier):
    try:
      c = type("C%d" % i, tuple(_bc(classes, b) for b in t), {})
    except TypeError as e:
      return mros, (i, str(e))
    classes.append(c)
    index = {k: j for j, k in enumerate(classes)}
    mros.append(tuple(index[k] for k in c.__mro__ if k is not object))
  return mros, None


def hierarchies(n, maxb, obj=False):
  """All hierarchies of exactly n classes: legal (n-1)-prefix + any n-th class."""
  out = []

  def rec(hier, classes):
    i = len(hier)
    for t in base_tuples(i, maxb, obj):
      if i == n - 1:
        out.append(hier + (t,))
        continue
      try:
        c = type("C%d" % i, tuple(_bc(classes, b) for b in t), {})
      except TypeError:
        continue
      classes.append(c)
      rec(hier + (t,), classes)
      classes.pop()
  rec((), [])
  return out


def _windowed(n, maxb, window):
  """Legal hierarchies of exactly n classes whose bases come from the `window` most recent classes."""
  out = []

  def rec(hier, classes):
    i = len(hier)
    if i == n:
      out.append(hier)
      return
    for t in base_tuples(i, maxb, window=window):
      try:
        c = type("C%d" % i, tuple(_bc(classes, b) for b in t), {})
      except TypeError:
        continue
      classes.append(c)
      rec(hier + (t,), classes)
      classes.pop()
  rec((), [])
  return out


def legal_prefixes(n, maxb):
  return [h for h in hierarchies(n, maxb) if cpython_classes(h)[1] is None] if n else [()]


def shrinks(hier):
  """One-step reductions: drop a class (and every mention of it), or one base entry."""
  n = len(hier)
  for j in range(n - 1, -1, -1):
    if n == 1:
      break
    out = []
    for i, t in enumerate(hier):
      if i == j:
        continue
      out.append(tuple(b - (b > j) for b in t if b != j))
    yield tuple(out)
  for i in range(n - 1, -1, -1):
    t = hier[i]
    for pos in range(len(t)):
      yield hier[:i] + (t[:pos] + t[pos + 1:],) + hier[i + 1:]


def minimise(hier, fails):
  """Greedy descent to a hierarchy none of whose one-step reductions fails."""
  hier = tuple(tuple(t) for t in hier)
  moved = True
  while moved:
    moved = False
    for cand in shrinks(hier):
      if fails(cand):
        hier, moved = cand, True
        break
  return hier


def as_list(hier):
  return [list(t) for t in hier]


def as_tuple(hier):
  return tuple(tuple(t) for t in hier)


def show(hier):
  return "; ".join("class C%d(%s)" % (i, ", ".join(_bn(b) for b in t)) if t else "class C%d" % i
                   for i, t in enumerate(hier))


def case_of(route, kind, hier, found_in):
  """The replayable case, with the generated texts for the reader's benefit."""
  hier = as_tuple(hier)
  refused = cpython_classes(hier)[1]
  case = {"route": route, "kind": kind, "hier": as_list(hier), "found_in": as_list(found_in)}
  if route == "S":
    case["source"] = Program(hier, refused, "all").text
  elif route in ("P", "D"):
    case["stub a.pyi"] = stub_text(hier)
    if route == "P":
      case["reader"] = reader_text(hier, "a", refused, "all")[0]
  return case


def key_of(route, kind, hier):
  return vrun.jkey({"route": route, "kind": kind, "hier": as_list(hier)})


# ---------------------------------------------------------------- program texts


def attrs_of(i, n):
  """(name, type) of the attributes class i defines in a hierarchy of n classes."""
  out = []
  for x, y in itertools.combinations(range(n), 2):
    if x == i:
      out.append(("p_%d%d" % (x, y), "int"))
    if y == i:
      out.append(("p_%d%d" % (x, y), "str"))
  out.append(("q_%d" % i, "float"))
  return out


def all_attrs(n):
  return ["p_%d%d" % xy for xy in itertools.combinations(range(n), 2)] + ["q_%d" % x for x in range(n)]


def read_plan(hier, refused, reads):
  """[(class k, attr, via)] in program order; via 'c' = through the class, 'i' = through an instance."""
  n = len(hier)
  ks = [k for k in range(n) if not (refused and k >= refused[0])]
  if reads == "last":
    ks = [k for k in ks if k == n - 1]
  return [(k, a, via) for k in ks for a in all_attrs(n) for via in ("c", "i")]


class Program:
  """Source text in chunks: one per class statement, one per read line."""

  def __init__(self, hier, refused, reads):
    n = len(hier)
    self.hier = hier
    self.chunks = []     # (kind, first line, text, info)
    self.class_line = {}
    self.reads = []      # (line, var, k, attr, via)
    line = 1
    for i, t in enumerate(hier):
      head = "class C%d(%s):" % (i, ", ".join(_bn(b) for b in t)) if t else "class C%d:" % i
      body = ["  %s = %s" % (a, TYPE_OF[ty]) for a, ty in attrs_of(i, n)]
      text = "\n".join([head] + body)
      self.class_line[i] = line
      self.chunks.append(("class", line, text, i))
      line += 1 + len(body)
    for k, a, via in read_plan(hier, refused, reads):
      var = "%s_%d_%s" % (via, k, a)
      text = "%s = C%d%s.%s" % (var, k, "()" if via == "i" else "", a)
      self.chunks.append(("read", line, text, var))
      self.reads.append((line, var, k, a, via))
      line += 1
    self.text = "\n".join(c[2] for c in self.chunks) + "\n"


def run_cpython(prog):
  """Executes the program chunk by chunk under CPython.

  Returns (refused {class index: message}, values {var: type name or None}).
  """
  ns = {"__name__": "__c10__"}
  refused, values = {}, {}
  for kind, line, text, info in prog.chunks:
    code = compile(text, "<c10>", "exec")
    if kind == "class":
      try:
        exec(code, ns)  # pylint: disable=exec-used
      except TypeError as e:
        refused[info] = str(e)
    else:
      try:
        exec(code, ns)  # pylint: disable=exec-used
        values[info] = type(ns[info]).__name__
      except AttributeError:
        values[info] = None
  return refused, values


def stub_text(hier):
  n = len(hier)
  out = []
  for i, t in enumerate(hier):
    out.append("class C%d(%s):" % (i, ", ".join(_bn(b) for b in t)) if t else "class C%d:" % i)
    out += ["    %s: %s" % (a, ty) for a, ty in attrs_of(i, n)]
  return "\n".join(out) + "\n"


def reader_text(hier, mod, refused, reads):
  """Reader module; returns (text, touch {k: line}, reads [(line, var, k, attr, via)])."""
  lines = ["import %s" % mod]
  touch, rd = {}, []
  for k in range(len(hier)):
    lines.append("t_%d = %s.C%d" % (k, mod, k))
    touch[k] = len(lines)
  for k, a, via in read_plan(hier, refused, reads):
    var = "%s_%d_%s" % (via, k, a)
    lines.append("%s = %s.C%d%s.%s" % (var, mod, k, "()" if via == "i" else "", a))
    rd.append((len(lines), var, k, a, via))
  return "\n".join(lines) + "\n", touch, rd


def mod_name(hier):
  return "h" + "_".join("".join("x" if b == OBJ else str(b) for b in t) or "o" for t in hier)


# ---------------------------------------------------------------- comparing one analysis


def descendants(hier, k):
  out = {k}
  for i, t in enumerate(hier):
    if any(b in out for b in t):
      out.add(i)
  return out


def compare(route, hier, res, cls_lines, reads, refused_at, expect, mros, where):
  """Compares one analysis result with what CPython did.  Returns {kind: summary}."""
  bad = {}

  def note(kind, msg):
    bad.setdefault(kind, "%s route, %s: %s" % (where, show(hier), msg))

  line_cls = {ln: k for k, ln in cls_lines.items()}
  mro_lines = {ln for name, ln, _ in res.errors if name == "mro-error"}
  attr_lines = {ln for name, ln, _ in res.errors if name == "attribute-error"}
  read_lines = {r[0] for r in reads}
  tainted = set()
  for k, ln in sorted(cls_lines.items()):
    if k in refused_at and ln not in mro_lines:
      note("mro-error-missing", "CPython refuses C%d (TypeError: %s) but pytype reports no [mro-error] on line %d"
           % (k, refused_at[k], ln))
    if k not in refused_at and ln in mro_lines:
      tainted |= descendants(hier, k)
      note("mro-error-spurious", "pytype reports [mro-error] for C%d (line %d) but CPython creates it with __mro__ %s"
           % (k, ln, mro_str(mros, k)))
  for ln in sorted(mro_lines - set(line_cls)):
    note("mro-error-spurious", "pytype reports [mro-error] on line %d, which is not a class CPython refuses" % ln)
  for name, ln, msg in res.errors:
    if name == "mro-error":
      continue
    if name == "attribute-error" and ln in read_lines:
      continue
    note("other-error", "unexpected [%s] on line %d: %s" % (name, ln, msg))
  try:
    stub = pt.Stub(res.pyi)
  except SyntaxError as e:
    note("bad-stub", "emitted stub is not valid Python: %s" % e)
    return bad
  for ln, var, k, attr, via in reads:
    if k in tainted:
      continue
    want = expect[var]
    how = "C%d%s.%s" % (k, "()" if via == "i" else "", attr)
    if ln in attr_lines:
      if want is not None:
        note("lookup-presence", "pytype reports [attribute-error] for %s but CPython finds the %s definition "
             "(C%d.__mro__ = %s)" % (how, want, k, mro_str(mros, k)))
      continue
    got = pyast.unparse(stub.consts[var]) if var in stub.consts else "<missing from stub>"
    if want is None:
      note("lookup-presence", "CPython raises AttributeError for %s (C%d.__mro__ = %s) but pytype infers %s "
           "without an error" % (how, k, mro_str(mros, k), got))
    elif got != want:
      note("lookup-order" if got in TYPE_OF else "lookup-type",
           "%s is %s for pytype but CPython finds the %s definition first (C%d.__mro__ = %s)"
           % (how, got, want, k, mro_str(mros, k)))
  return bad


def mro_str(mros, k):
  if k >= len(mros):
    return "?"
  return "[" + ", ".join("C%d" % j for j in mros[k]) + ", object]"


# ---------------------------------------------------------------- the routes


def check_source(hier, reads="all", share=False):
  """Route S. Returns ({kind: summary}, facts)."""
  mros, refused = cpython_classes(hier)
  prog = Program(hier, refused, reads)
  refused_at, expect = run_cpython(prog)
  facts = {"refused": bool(refused_at), "reads": len(prog.reads),
           "missing": sum(1 for v in expect.values() if v is None)}
  try:
    res = pt.analyze(prog.text, share=share)
  except Exception as e:  # pylint: disable=broad-except
    return {"crash": "source route, %s: analysis raised %s: %s" % (show(hier), type(e).__name__, str(e)[:200])}, facts
  return compare("S", hier, res, prog.class_line, prog.reads, refused_at, expect, mros, "source"), facts


def check_stub(hier, reads="all", share_dir=None):
  """Routes P and D. Returns ({kind: summary} for P, {kind: summary} for D).

  share_dir: directory on the shared loader's pythonpath (one loader per worker
  process, unique module name per hierarchy); None = fresh loader, fresh directory.
  """
  from pytype import load_pytd
  from pytype.pytd import mro as mro_lib
  mros, refused = cpython_classes(hier)
  prog = Program(hier, refused, reads)
  refused_at, expect = run_cpython(prog)   # the same hierarchy and attribute placement as the stub
  mod = mod_name(hier)
  tmp = None
  if share_dir is None:
    tmp = d = tempfile.mkdtemp(prefix="c10_")
    opts = pt.options(pythonpath=d)
    loader = load_pytd.create_loader(opts)
  else:
    d = share_dir
    opts, loader = pt.shared(pythonpath=d)
  path = os.path.join(d, mod + ".pyi")
  bad_p, bad_d = {}, {}
  try:
    with open(path, "w") as f:
      f.write(stub_text(hier))
    text, touch, rd = reader_text(hier, mod, refused, reads)
    try:
      res = pt.analyze(text, loader=loader, opts=opts)
    except Exception as e:  # pylint: disable=broad-except
      bad_p["crash"] = "stub route, %s: analysing the reader raised %s: %s" % (
          show(hier), type(e).__name__, str(e)[:200])
    else:
      bad_p = compare("P", hier, res, touch, rd, refused_at, expect, mros, "stub")
    # route D: GetBasesInMRO on the classes of the stub as the loader resolved it
    try:
      tree = loader.import_name(mod)
      if tree is None:
        raise RuntimeError("loader did not find the stub")
    except Exception as e:  # pylint: disable=broad-except
      bad_d["crash"] = "direct route, %s: loading the stub raised %s: %s" % (
          show(hier), type(e).__name__, str(e)[:200])
      tree = None
    if tree is not None:
      for k in range(len(hier)):
        cls = tree.Lookup("%s.C%d" % (mod, k))
        for with_ast in (True, False):
          try:
            got = [t.name for t in mro_lib.GetBasesInMRO(cls, lookup_ast=tree if with_ast else None)]
          except mro_lib.MROError:
            got = None
          if k in refused_at:
            if got is not None:
              bad_d.setdefault("mro-error-missing", "direct route, %s: CPython refuses C%d (TypeError: %s) but "
                               "mro.GetBasesInMRO returns %s" % (show(hier), k, refused_at[k], got))
            continue
          want = ["%s.C%d" % (mod, j) for j in mros[k][1:]] + ["builtins.object"]
          if got is None:
            bad_d.setdefault("mro-error-spurious", "direct route, %s: mro.GetBasesInMRO raises MROError for C%d but "
                             "CPython gives __mro__ %s" % (show(hier), k, mro_str(mros, k)))
          elif got != want:
            bad_d.setdefault("mro-order", "direct route, %s: mro.GetBasesInMRO(C%d) = %s but CPython's "
                             "C%d.__mro__[1:] = %s" % (show(hier), k, [g.replace(mod + ".", "") for g in got], k,
                                                       [w.replace(mod + ".", "") for w in want]))
  finally:
    if tmp:
      shutil.rmtree(tmp, ignore_errors=True)
    else:
      try:
        os.unlink(path)
      except OSError:
        pass
  return bad_p, bad_d


def pure_kinds(hier):
  """Route M on one hierarchy: {kind: summary}.  Rows are built from CPython's own base MROs."""
  from pytype.pytd import mro as mro_lib
  bad = {}
  mros, refused = cpython_classes(hier)
  for k, t in enumerate(hier):
    if refused and k > refused[0]:
      break
    if any(b >= len(mros) for b in t):
      break
    base_rows = [list(mros[b]) + [OBJ] for b in t] if t else [[OBJ]]
    last = list(t) if t else [OBJ]
    ok = not (refused and refused[0] == k)
    want = (list(mros[k]) + [OBJ]) if ok else None
    for shape, rows, exp in (("compute_mro", [[k]] + base_rows + [last], want),
                             ("GetBasesInMRO", base_rows + [last], want[1:] if ok else None)):
      try:
        got = _row_merge(mro_lib, rows)
      except mro_lib.MROError:
        got = None
      if not ok and got is not None:
        bad.setdefault("mro-error-missing", "MROMerge (%s rows), %s: CPython refuses C%d (TypeError: %s) but "
                       "MROMerge(%s) = %s" % (shape, show(hier), k, refused[1], rows, got))
      elif ok and got is None:
        bad.setdefault("mro-error-spurious", "MROMerge (%s rows), %s: MROMerge(%s) raises MROError but CPython "
                       "gives %s" % (shape, show(hier), rows, exp))
      elif ok and got != exp:
        bad.setdefault("mro-order", "MROMerge (%s rows), %s: MROMerge(%s) = %s but CPython gives %s (-1 = object)"
                       % (shape, show(hier), rows, got, exp))
  return bad


# ---------------------------------------------------------------- workers

_SHARE_DIR = None   # set in the parent before the pool forks


def work_program(item):
  """One hierarchy on routes S, P, D."""
  hier, reads = item
  share = _SHARE_DIR is not None
  bad_s, facts = check_source(hier, reads, share=share)
  bad_p, bad_d = check_stub(hier, reads, share_dir=_SHARE_DIR)
  return {"S": bad_s, "P": bad_p, "D": bad_d}, facts


_PURE_MEMO = {}


def _pure_fails(hier):
  if hier not in _PURE_MEMO:
    _PURE_MEMO[hier] = pure_kinds(hier)
  return _PURE_MEMO[hier]


def _row_merge(mro_lib, rows):
  """The row-level pipeline of compute_mro / _ComputeMRO: duplicate direct bases, then the C3 merge.

  MROMerge's own contract (pinned by upstream's mro_test) de-duplicates every row, so a repeated
  direct base is the callers' business; they share mro.CheckDuplicateBases (last row = direct bases).
  """
  rows = [list(r) for r in rows]
  check = getattr(mro_lib, "CheckDuplicateBases", None)
  if check is not None:
    check(rows[-1], rows)
  return mro_lib.MROMerge(rows)


def work_pure(item):
  """Route M on the whole subtree below one legal prefix, up to n classes."""
  from pytype.pytd import mro as mro_lib
  prefix, n, maxb = item[:3]
  window = item[3] if len(item) > 3 else None
  stats = {"evals": 0, "refused": 0, "dup": 0, "multi": 0}
  found = {}   # (kind, minimal hier) -> (summary, found_in)

  def visit(hier, classes, mros):
    i = len(hier)
    for t in base_tuples(i, maxb, window=window):
      h2 = hier + (t,)
      try:
        c = type("C%d" % i, tuple(_bc(classes, b) for b in t), {})
        index = {k: j for j, k in enumerate(classes)}
        index[c] = i
        want = [index[k] for k in c.__mro__ if k is not object] + [OBJ]
      except TypeError:
        c, want = None, None
        stats["refused"] += 1
      stats["evals"] += 2
      if len(set(t)) < len(t):
        stats["dup"] += 1
      if len(t) > 1:
        stats["multi"] += 1
      base_rows = [mros[b] + [OBJ] for b in t] if t else [[OBJ]]
      last = list(t) if t else [OBJ]
      wrong = False
      for rows, exp in (([[i]] + base_rows + [last], want), (base_rows + [last], want and want[1:])):
        try:
          got = _row_merge(mro_lib, rows)
        except mro_lib.MROError:
          got = None
        if got != exp:
          wrong = True
      if wrong:
        for kind in pure_kinds(h2):
          m = minimise(h2, lambda cand, kind=kind: kind in _pure_fails(cand))
          if (kind, m) not in found or h2 < found[(kind, m)][1]:
            found[(kind, m)] = (pure_kinds(m)[kind], h2)
      if c is not None and i + 1 < n:
        classes.append(c)
        mros.append(want[:-1])
        visit(h2, classes, mros)
        classes.pop()
        mros.pop()

  classes, mros = [], []
  for i, t in enumerate(prefix):
    c = type("C%d" % i, tuple(_bc(classes, b) for b in t), {})
    classes.append(c)
    index = {k: j for j, k in enumerate(classes)}
    mros.append([index[k] for k in c.__mro__ if k is not object])
  visit(tuple(prefix), classes, mros)
  out = sorted((kind, m, s, f) for (kind, m), (s, f) in found.items())
  return stats, out[:40], len(out)


def work_confirm(item):
  """Re-checks one (route, hierarchy) with a fresh loader; returns {kind: summary}."""
  route, hier = item
  return check_route(route, hier)


def work(item):
  """One pool serves all phases (forking the parent with its preloaded builtins is not free)."""
  return {"program": work_program, "pure": work_pure, "confirm": work_confirm}[item[0]](item[1])


def check_route(route, hier):
  hier = as_tuple(hier)
  if route == "S":
    return check_source(hier, "all", share=False)[0]
  if route in ("P", "D"):
    bad_p, bad_d = check_stub(hier, "all", share_dir=None)
    return bad_p if route == "P" else bad_d
  return pure_kinds(hier)


# ---------------------------------------------------------------- run


def run(rep, tier, seed):
  global _SHARE_DIR
  bounds = BOUNDS[tier]
  boot.load()
  items = []
  per_level = {}
  seen_h = set()
  for level in bounds["programs"]:
    n, maxb, reads = level[:3]
    obj = len(level) > 3
    hs = [h for h in hierarchies(n, maxb, obj) if h not in seen_h]
    seen_h.update(hs)
    per_level["n=%d,bases<=%d,reads=%s%s" % (n, maxb, reads, ",explicit-object-base" if obj else "")] = len(hs)
    items += [(h, reads) for h in hs]

  # one loader per worker process, created (with builtins/typing parsed) before the pool forks; a worker is
  # replaced after 32 chunks of 16 programs, which also discards the stub modules its loader has accumulated
  _SHARE_DIR = tempfile.mkdtemp(prefix="c10_share_")
  failing = {}     # (route, kind) -> {hier: summary}
  pure_found = {}
  pure_stats = {}
  n_refused = n_reads = n_missing = 0
  pool = None
  try:
    pt.shared(pythonpath=_SHARE_DIR)
    pt.analyze("x = 1\n", share=True)
    pt.analyze("x = 1\n", share=True, pythonpath=_SHARE_DIR)
    gc.collect()
    gc.freeze()   # keep the preloaded builtins out of the workers' collections (less copy-on-write churn)
    pool = vrun.Pool(work, maxtasks=32)
    for (_, (hier, reads)), (bad, facts) in pool.map([("program", it) for it in items], seed=seed, chunksize=16,
                                                     progress=5000):
      rep.evaluations += 3
      n_reads += 2 * facts["reads"]
      n_missing += 2 * facts["missing"]
      multi = any(len(t) > 1 for t in hier)
      if facts["refused"]:
        n_refused += 1
        rep.outcome("cpython-refuses-last-class")
      else:
        rep.outcome("cpython-accepts" + ("+multiple-inheritance" if multi else "+single-inheritance"))
      if multi:
        rep.nontrivial.add(hier)
      for route, kinds in bad.items():
        for kind, summary in kinds.items():
          failing.setdefault((route, kind), {})[hier] = summary

    # route M
    pn, pmaxb = bounds["pure"]
    split = min(4, pn - 1)
    pure_items = [((), split, pmaxb)] + [(p, pn, pmaxb) for p in legal_prefixes(split, pmaxb)]
    # deep, narrow hierarchies (the property speaks of ~8 classes): every class picks <=B bases among the W
    # most recent classes; the subtree below every legal 4-class prefix of the same family
    for dn, dmaxb, dw in bounds["deep"]:
      pre = [h for h in _windowed(4, dmaxb, dw)]
      pure_items += [(p, dn, dmaxb, dw) for p in pre]
    for _, (stats, found, nfound) in pool.map([("pure", it) for it in pure_items], seed=seed, chunksize=1):
      for k, v in stats.items():
        pure_stats[k] = pure_stats.get(k, 0) + v
      if nfound > len(found):
        rep.cap("route M: more than 40 distinct minimal violations below one prefix")
      for kind, m, summary, found_in in found:
        cur = pure_found.get((kind, m))
        if cur is None or found_in < cur[1]:
          pure_found[(kind, m)] = (summary, found_in)
    rep.evaluations += pure_stats.get("evals", 0)
    rep.nontrivial_extra += pure_stats.get("multi", 0)
    rep.outcome("MROMerge:cpython-refuses", pure_stats.get("refused", 0))
    rep.outcome("MROMerge:cpython-accepts", pure_stats.get("evals", 0) // 2 - pure_stats.get("refused", 0))

    # minimise the program-route failures inside the evaluated space, then confirm with a fresh loader
    minimal = {}    # (route, kind, min hier) -> smallest found_in
    for (route, kind), hs in failing.items():
      for hier in hs:
        m = minimise(hier, lambda cand, hs=hs: cand in hs)
        cur = minimal.get((route, kind, m))
        if cur is None or (len(hier), hier) < (len(cur), cur):
          minimal[(route, kind, m)] = hier
    todo = sorted({(route, m) for route, _, m in minimal})
    confirmed = {it: res for (_, it), res in pool.map([("confirm", it) for it in todo], seed=seed, chunksize=1)}
    for (route, kind, m), found_in in sorted(minimal.items()):
      again = confirmed.get((route, m), {})
      if kind in again:
        rep.violation(key_of(route, kind, m), again[kind], case_of(route, kind, m, found_in))
      else:
        # seen with the per-process loader only: re-check the original case with a fresh loader
        again = vrun.isolated(work_confirm, (route, found_in))
        if kind in again:
          rep.violation(key_of(route, kind, found_in), again[kind], case_of(route, kind, found_in, found_in))
        else:
          rep.cap("%s/%s on %s seen with the per-process loader but not with a fresh loader" % (route, kind, show(m)))
  finally:
    if pool is not None:
      pool.close()
    shutil.rmtree(_SHARE_DIR, ignore_errors=True)
    _SHARE_DIR = None
  for (route, kind), hs in sorted(failing.items()):
    rep.outcome("failing:%s:%s" % (route, kind), len(hs))
  for (kind, m), (summary, found_in) in sorted(pure_found.items()):
    rep.violation(key_of("M", kind, m), summary, case_of("M", kind, m, found_in))
    rep.outcome("violation:M:%s" % kind)

  rep.cov.update({
      "programs": len(items), "program_levels": per_level,
      "analyses": 2 * len(items), "attribute_reads_compared": n_reads,
      "reads_where_cpython_raises_AttributeError": n_missing,
      "programs_whose_last_class_cpython_refuses": n_refused,
      "direct_GetBasesInMRO_stubs": len(items),
      "pure_MROMerge_calls": pure_stats.get("evals", 0),
      "pure_hierarchies_refused_by_cpython": pure_stats.get("refused", 0),
      "pure_hierarchies_with_duplicate_base": pure_stats.get("dup", 0),
      "bounds": "tier=%s: programs %s (n classes, <=B bases each, every legal (n-1)-prefix x every n-th class; "
                "reads=all: every class read, reads=last: only the new last class read, the prefix classes having "
                "been read as the last class of their own program); MROMerge route n<=%d, <=%d bases, plus deep families "
                "(n classes, <=B bases among the W most recent classes) %s"
                % (tier, ["n=%d,B=%d,%s" % b[:3] + (",explicit-object" if len(b) > 3 else "") for b in bounds["programs"]], pn, pmaxb,
                   ["n<=%d,B=%d,W=%d" % d for d in bounds["deep"]]),
  })
  rep.rule = ("class i picks every ordered tuple of <=B bases among classes 0..i-1 (repeats allowed); every legal prefix "
              "is extended by every possible next class; each hierarchy is analysed as a source program, as a stub "
              "read by an importing module, and via mro.GetBasesInMRO on the loaded stub; each p_XY (int in CX, str "
              "in CY) and q_X (float in CX) is read through the class and through an instance; oracle = the same "
              "statements exec'd by CPython; evaluations = 3 per program + 2 MROMerge calls per pure hierarchy; "
              "non-trivial = hierarchy with a class that has >=2 bases")
  mid = items[len(items) // 2][0]
  rep.sample({"hierarchy": show(mid), "source_program": Program(mid, cpython_classes(mid)[1], "all").text[:600]})
  rep.sample({"hierarchy": show(items[-1][0]), "stub": stub_text(items[-1][0])[:400]})
  rep.assumptions += [
      "attributes are plain class-level constants of types int/str/float; descriptors, metaclasses, __slots__ and "
      "generic bases are outside this space",
      "an illegal class appears only as the last class of a hierarchy (every prefix is legal), so classes derived "
      "from a refused class are not covered",
      "on the stub route CPython cannot execute the .pyi; the expected values are those of the source program with "
      "the same hierarchy and attribute placement, and [mro-error] is expected on the reader's first reference to "
      "the refused class",
      "the exploration uses one loader per worker process (unique stub module name per hierarchy); every minimal "
      "violation is re-checked with a fresh loader before it is reported",
  ]


def replay(case):
  boot.load()
  hier = as_tuple(case["hier"])
  bad = check_route(case["route"], hier)
  out = [{"key": key_of(case["route"], kind, hier), "summary": s} for kind, s in sorted(bad.items())]
  out.sort(key=lambda v: v["key"] != key_of(case["route"], case["kind"], hier))
  return out
