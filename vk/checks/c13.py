"""C13: calls bind arguments exactly as CPython does.

Every signature within the tier's bound (positional-only, positional-or-keyword,
trailing defaults, *args, keyword-only with/without default, **kw) is combined
with every function kind (plain function, method, classmethod, staticmethod,
__init__) and EVERY call shape of the bound (0..N positional arguments x every
keyword subset of size <= K over the parameter names plus one unknown name),
one call per line, in programs of at most CHUNK calls.  Each program is
analysed once by the real pipeline and every call is also performed by CPython
itself:

  verdict   pytype reports wrong-arg-count / wrong-keyword-args /
            missing-parameter / duplicate-keyword-argument on the call line
            iff the real call raises TypeError;
  binding   every argument expression and every default has its own class and
            the callee returns (params..., args, kw): when both accept, the type
            inferred for the call result must admit the run-time tuple
            (vk/admits.py) and name exactly the run-time class at every position.

Violations are keyed on a minimised (kind, signature, call shape): the enumerated
space is closed under dropping parameters/defaults/arguments, so the minimiser
walks the set of failing inputs itself (no further analyses needed).
"""

import ast as pyast
import collections
import inspect
import itertools
import re

from vk import admits as adm, boot, pt, run as vrun

ID = "C13"
LEVEL = "exploration"
NEEDS_EXT = True

ARITY = frozenset(["wrong-arg-count", "wrong-keyword-args", "missing-parameter",
                   "duplicate-keyword-argument"])
KINDS = ("function", "method", "classmethod", "staticmethod", "init")
PO, PK, KO, UNKNOWN = "ab", "cde", "kl", "z"

BOUNDS = {   # signatures: max positional-only, positional-or-keyword, keyword-only; calls: max positionals, keywords
    "quick": ((1, 2, 1), (4, 2)),
    "thorough": ((2, 3, 2), (5, 3)),
}

ACC_TE = "pytype-accepts/CPython-TypeError"
REJ_OK = "pytype-rejects/CPython-accepts"
BIND = "binding-differs"

_TRACE_RE = re.compile(r"line (\d+), in current file")

Sig = collections.namedtuple("Sig", "npo npk ndef star ko kw")   # ko: tuple of 0/1 = has default


# ----------------------------------------------------------------- the space


def signatures(tier):
  mpo, mpk, mko = BOUNDS[tier][0]
  out = []
  for npo in range(mpo + 1):
    for npk in range(mpk + 1):
      for ndef in range(npo + npk + 1):
        for star in (0, 1):
          for nko in range(mko + 1):
            for ko in itertools.product((0, 1), repeat=nko):
              for kw in (0, 1):
                out.append(Sig(npo, npk, ndef, star, tuple(ko), kw))
  return out


def pos_names(sig):
  return list(PO[:sig.npo]) + list(PK[:sig.npk])


def all_names(sig):
  return pos_names(sig) + list(KO[:len(sig.ko)])


def defaulted(sig):
  pn = pos_names(sig)
  return pn[len(pn) - sig.ndef:] + [KO[i] for i, d in enumerate(sig.ko) if d]


def call_shapes(sig, cb):
  """All (npos, keyword-name tuple) within the call bound cb = (max positionals, max keywords), in a fixed order."""
  names = all_names(sig) + [UNKNOWN]
  subsets = [c for k in range(cb[1] + 1) for c in itertools.combinations(names, k)]
  return [(npos, kws) for npos in range(cb[0] + 1) for kws in subsets]


def params_src(sig, first=None):
  dflt = set(defaulted(sig))
  p = lambda n: n + ("=d_" + n if n in dflt else "")
  parts = [first] if first else []
  parts += [p(n) for n in PO[:sig.npo]]
  if sig.npo:
    parts.append("/")
  parts += [p(n) for n in PK[:sig.npk]]
  if sig.star:
    parts.append("*args")
  elif sig.ko:
    parts.append("*")
  parts += [p(n) for n in KO[:len(sig.ko)]]
  if sig.kw:
    parts.append("**kw")
  return ", ".join(parts)


def ret_items(sig):
  """[(expression, role)] of the tuple the callee returns."""
  return ([(n, "param") for n in pos_names(sig)] + ([("args", "args")] if sig.star else []) +
          [(n, "param") for n in KO[:len(sig.ko)]] + ([("kw", "kw")] if sig.kw else []))


def sig_str(kind, sig):
  first = {"method": "self", "classmethod": "cls", "init": "self"}.get(kind)
  name = "__init__" if kind == "init" else "f"
  deco = {"classmethod": "@classmethod ", "staticmethod": "@staticmethod "}.get(kind, "")
  where = "" if kind == "function" else "class C: "
  return "%s%sdef %s(%s)" % (where, deco, name, params_src(sig, first))


def call_str(kind, npos, kws):
  args = ["p%d" % i for i in range(npos)] + ["%s=k_%s" % (n, n) for n in kws]
  callee = {"function": "f", "method": "c0.f", "classmethod": "C.f", "staticmethod": "C.f",
            "init": "C"}[kind]
  return "%s(%s)%s" % (callee, ", ".join(args), ".r" if kind == "init" else "")


def build_program(kind, sig, calls):
  """Returns (prelude lines, call expressions); call i is on line len(prelude)+1+i."""
  L = []
  max_pos = max([npos for npos, _ in calls] + [0])
  for i in range(max_pos):
    L.append("class P%d: pass" % i)
  kn = all_names(sig) + [UNKNOWN]
  for n in kn:
    L.append("class K_%s: pass" % n)
  for n in defaulted(sig):
    L.append("class D_%s: pass" % n)
  for i in range(max_pos):
    L.append("p%d = P%d()" % (i, i))
  for n in kn:
    L.append("k_%s = K_%s()" % (n, n))
  for n in defaulted(sig):
    L.append("d_%s = D_%s()" % (n, n))
  tup = "(" + "".join(e + ", " for e, _ in ret_items(sig)) + ")"
  if kind == "function":
    L.append("def f(%s):" % params_src(sig))
    L.append("  return " + tup)
  else:
    L.append("class C:")
    if kind == "init":
      L.append("  def __init__(%s):" % params_src(sig, "self"))
      L.append("    self.r = " + tup)
    else:
      if kind in ("classmethod", "staticmethod"):
        L.append("  @" + kind)
      first = {"method": "self", "classmethod": "cls", "staticmethod": None}[kind]
      L.append("  def f(%s):" % params_src(sig, first))
      L.append("    return " + tup)
    if kind == "method":
      L.append("c0 = C()")
  return L, [call_str(kind, npos, kws) for npos, kws in calls]


# ----------------------------------------------------------------- the oracle: CPython itself


def run_cpython(prelude, exprs):
  """Performs every call for real.  Returns (namespace, [(ok, value-or-message)])."""
  ns = {"__name__": "__vk_prog__"}
  exec(compile("\n".join(prelude) + "\n", "<c13>", "exec"), ns)   # pylint: disable=exec-used
  out = []
  for e in exprs:
    try:
      out.append((True, eval(compile(e, "<c13-call>", "eval"), ns)))   # pylint: disable=eval-used
    except TypeError as exc:   # the callee body cannot raise: any TypeError is a binding failure
      out.append((False, str(exc)))
  return ns, out


def bind_says_ok(ns, sig, npos, kws):
  """inspect.Signature.bind on the plain function (cross-check only, never a verdict)."""
  try:
    inspect.signature(ns["f"]).bind(*[ns["p%d" % i] for i in range(npos)],
                                    **{n: ns["k_" + n] for n in kws})
    return True
  except TypeError:
    return False


# ----------------------------------------------------------------- binding comparison


def _norm(t):
  if t[0] == "union":
    xs = sorted(set(_norm(x) for x in t[1]))
    return xs[0] if len(xs) == 1 else ("union", tuple(xs))
  if t[0] == "tuple":
    return ("tuple", tuple(_norm(x) for x in t[1]))
  if t[0] == "gen":
    return ("gen", t[1], tuple(_norm(x) for x in t[2]))
  return t


def _expected(v):
  if isinstance(v, tuple):
    return ("tuple", tuple(_expected(x) for x in v))
  if isinstance(v, dict):
    if not v:
      return ("gen", "dict", (("nothing",), ("nothing",)))
    assert all(type(k) is str for k in v)
    return _norm(("gen", "dict", (("cls", "str"), ("union", tuple(_expected(x) for x in v.values())))))
  return ("cls", type(v).__name__)


def _show(t):
  k = t[0]
  if k == "cls":
    return t[1]
  if k == "tuple":
    return "tuple[%s]" % (", ".join(_show(x) for x in t[1]) or "()")
  if k == "gen":
    return "%s[%s]" % (t[1], ", ".join(_show(x) for x in t[2]))
  if k == "union":
    return "Union[%s]" % ", ".join(_show(x) for x in t[1])
  return {"any": "Any", "nothing": "nothing", "none": "None"}.get(k, repr(t))


def _showval(v):
  if isinstance(v, tuple):
    return "(%s)" % ", ".join(_showval(x) for x in v)
  if isinstance(v, dict):
    return "{%s}" % ", ".join("%r: %s" % (k, _showval(x)) for k, x in v.items())
  return type(v).__name__ + "()"


def binding_mismatch(sig, annot, value, env):
  """None if the inferred type of the call result binds like CPython did, else a message."""
  if annot is None:
    return "the call result has no type in the emitted stub"
  term = adm.from_ast(annot)
  items = ret_items(sig)
  if term[0] != "tuple" or len(term[1]) != len(items):
    return "inferred %s for the returned %d-tuple %s" % (_show(_norm(term)) if term[0] != "any" else "Any",
                                                          len(items), _showval(value))
  for (expr, role), t, v in zip(items, term[1], value):
    what = {"param": "parameter %s" % expr, "args": "*args", "kw": "**kw"}[role]
    if not adm.admits(t, v, env):
      return "%s: inferred %s does not admit the run-time %s" % (what, _show(_norm(t)), _showval(v))
    if _norm(t) != _expected(v):
      return "%s: inferred %s, CPython bound %s" % (what, _show(_norm(t)), _showval(v))
  return None


# ----------------------------------------------------------------- one program


CHUNK = 200   # calls per analysed program: pytype's cost per call grows with the length of one module


def chunks(calls):
  """Splits the call shapes of one signature into equal consecutive parts of at most CHUNK calls."""
  k = -(-len(calls) // CHUNK) or 1
  size = -(-len(calls) // k) or 1
  return [calls[i:i + size] for i in range(0, len(calls), size)] or [[]]


def check_program(kind, sig, cb, share, only=None):
  """Analyses and executes the program(s) of (kind, sig) holding all call shapes within cb.

  Returns (counters, violations [(npos, kws, class, detail)], sample).  `only`
  restricts the work to the program that holds the one call shape (npos, kws)
  and the report to that call; the program is the same as in a full run.
  """
  cnt = collections.Counter()
  viol, sample = [], None
  for part in chunks(call_shapes(sig, cb)):
    if only is None or only in part:
      sample = _check_part(kind, sig, part, share, only, cnt, viol)
  return cnt, viol, sample


def _check_part(kind, sig, calls, share, only, cnt, viol):
  prelude, exprs = build_program(kind, sig, calls)
  src = "\n".join(prelude + ["r%d = %s" % (i, e) for i, e in enumerate(exprs)]) + "\n"
  res = pt.analyze(src, share=share)
  cnt["programs"] += 1
  first = len(prelude) + 1
  is_call = lambda ln: ln is not None and first <= ln < first + len(exprs)
  body = [n + 1 for n, l in enumerate(prelude) if l.lstrip().startswith(("return ", "self.r = "))]
  by_line = collections.defaultdict(list)
  for name, line, msg in res.errors:
    if is_call(line):
      by_line[line - first].append(name)
    elif line in body:
      # an error inside the callee (its body cannot fail once CPython has bound the arguments): never an arity
      # error of the call; attributed to the calling line through pytype's traceback, for the record only
      cnt["errors-inside-callee-body"] += 1
      for ln in _TRACE_RE.findall(msg):
        if is_call(int(ln)):
          by_line[int(ln) - first].append("in-callee:" + name)
    else:
      raise RuntimeError("pytype error outside the callee and the call lines of a well-formed program: %r\n%s" % (
          (name, line, msg), src))
  stub = pt.Stub(res.pyi)
  ns, results = run_cpython(prelude, exprs)
  env = adm.Env(ns)
  for i, ((npos, kws), (ok, val)) in enumerate(zip(calls, results)):
    errs = by_line.get(i, [])
    arity = sorted(set(errs) & ARITY)
    cls = detail = None
    if ok and arity:
      cls, detail = REJ_OK, "pytype: %s; CPython returned %s" % (",".join(arity), _showval(val))
    elif not ok and not arity:
      cls, detail = ACC_TE, "CPython: TypeError(%s); pytype errors on the line: %s" % (val, errs or "none")
    elif ok:
      bad = binding_mismatch(sig, stub.consts.get("r%d" % i), val, env)
      if bad:
        cls, detail = BIND, bad + (" (pytype errors on the line: %s)" % errs if errs else "")
    cnt["evaluations"] += 1
    if cls:
      cnt["out:" + cls] += 1
    elif ok:
      cnt["out:accepted-by-both+binding-agrees"] += 1
    else:
      cnt["out:rejected-by-both:" + "+".join(arity)] += 1
    # non-trivial: the call passes a keyword, or binds using a default (fewer positionals than positional
    # parameters / a keyword-only parameter left out) or *args (more positionals)
    if kws or (ok and (npos != len(pos_names(sig)) or sig.ko)):
      cnt["nontrivial"] += 1
    if kind == "function" and bind_says_ok(ns, sig, npos, kws) != ok:
      cnt["inspect_bind_disagrees_with_real_call"] += 1
    if cls and (only is None or only == (npos, kws)):
      viol.append((npos, kws, cls, detail))
  mid = len(calls) // 2
  return {"kind": kind, "def": sig_str(kind, sig), "calls_in_program": len(calls), "example_call": exprs[mid],
          "cpython": _showval(results[mid][1]) if results[mid][0] else "TypeError: " + results[mid][1],
          "pytype_errors_on_line": by_line.get(mid, []),
          "pytype_type": _unparse(stub.consts.get("r%d" % mid))}


def _unparse(node):
  return pyast.unparse(node) if node is not None else None


def work(item):
  kind, sig, cb = item
  cnt, viol, sample = check_program(kind, sig, cb, True)
  return dict(cnt), viol, sample


def recheck(item):
  """One failing input again, in a program analysed with a fresh loader."""
  (kind, sig, npos, kws), cb = item
  _, viol, _ = check_program(kind, sig, cb, False, only=(npos, kws))
  return [v[2] for v in viol]


# ----------------------------------------------------------------- minimisation over the failing set


def _size(state):
  kind, sig, npos, kws = state
  return (sig.npo + sig.npk + sig.ndef + sig.star + len(sig.ko) + sum(sig.ko) + sig.kw + npos + len(kws)
          + (kind != "function"), KINDS.index(kind), tuple(sig), npos, kws)


def _drop_param(sig, kws, group, idx):
  """Signature without one parameter; keywords naming it are dropped, later names shift."""
  names = {"po": PO, "pk": PK, "ko": KO}[group]
  n = {"po": sig.npo, "pk": sig.npk, "ko": len(sig.ko)}[group]
  ren = {names[j]: names[j - 1] for j in range(idx + 1, n)}
  gone = names[idx]
  kws2 = tuple(ren.get(k, k) for k in kws if k != gone)
  if group == "ko":
    return sig._replace(ko=sig.ko[:idx] + sig.ko[idx + 1:]), kws2
  pn = pos_names(sig)
  at = idx if group == "po" else sig.npo + idx
  ndef = sig.ndef - 1 if at >= len(pn) - sig.ndef else sig.ndef
  if group == "po":
    return sig._replace(npo=sig.npo - 1, ndef=ndef), kws2
  return sig._replace(npk=sig.npk - 1, ndef=ndef), kws2


def reductions(state):
  """All one-step simplifications; each stays inside the enumerated space."""
  kind, sig, npos, kws = state
  if kind != "function":
    yield ("function", sig, npos, kws)
  if sig.kw:
    yield (kind, sig._replace(kw=0), npos, kws)
  if sig.star:
    yield (kind, sig._replace(star=0), npos, kws)
  for group, n in (("po", sig.npo), ("pk", sig.npk), ("ko", len(sig.ko))):
    for idx in range(n):
      s2, k2 = _drop_param(sig, kws, group, idx)
      yield (kind, s2, npos, k2)
      if group != "ko" and npos:
        yield (kind, s2, npos - 1, k2)
  if sig.ndef:
    yield (kind, sig._replace(ndef=sig.ndef - 1), npos, kws)
  for i, d in enumerate(sig.ko):
    if d:
      yield (kind, sig._replace(ko=sig.ko[:i] + (0,) + sig.ko[i + 1:]), npos, kws)
  if npos:
    yield (kind, sig, npos - 1, kws)
  for i in range(len(kws)):
    yield (kind, sig, npos, kws[:i] + kws[i + 1:])


def minimise_all(failing):
  """failing: {state: class}.  Returns {state: smallest failing state of the same class reachable by reductions}."""
  memo = {}

  def best(s):
    if s in memo:
      return memo[s]
    memo[s] = s   # (the reduction order is well-founded; this only guards re-entry)
    cands = [best(c) for c in reductions(s) if failing.get(c) == failing[s]]
    memo[s] = min(cands + [s], key=_size) if cands else s
    return memo[s]

  return {s: best(s) for s in sorted(failing, key=_size)}


def state_text(state):
  kind, sig, npos, kws = state
  return "%s ; %s" % (sig_str(kind, sig), call_str(kind, npos, kws))


def key_of(state, cls):
  return vrun.sha("C13|%s|%s" % (cls, state_text(state)))


def _case(state, cls, cb):
  kind, sig, npos, kws = state
  return {"kind": kind, "sig": [sig.npo, sig.npk, sig.ndef, sig.star, list(sig.ko), sig.kw],
          "npos": npos, "kws": list(kws), "class": cls, "text": state_text(state), "call_bound": list(cb)}


def _state_of(case):
  s = case["sig"]
  return (case["kind"], Sig(s[0], s[1], s[2], s[3], tuple(s[4]), s[5]), case["npos"], tuple(case["kws"]))


# ----------------------------------------------------------------- driver


def run(rep, tier, seed):
  (mpo, mpk, mko), cb = BOUNDS[tier]
  sigs = signatures(tier)
  items = [(kind, sig, cb) for sig in sigs for kind in KINDS]
  tot = collections.Counter()
  failing, details = {}, {}
  samples = {}
  pt.analyze("x = 1\n", share=True)   # load builtins/typing once, before the worker pool forks
  for (kind, sig, _), (cnt, viol, sample) in vrun.pmap(work, items, seed=seed, chunksize=1, maxtasks=300,
                                                       progress=1000 if tier == "thorough" else None):
    tot.update(cnt)
    for npos, kws, cls, detail in viol:
      failing[(kind, sig, npos, kws)] = cls
      details[(kind, sig, npos, kws)] = detail
    samples[(kind, sig)] = sample
  rep.evaluations = tot["evaluations"]
  rep.nontrivial_extra = tot["nontrivial"]
  for k, v in sorted(tot.items()):
    if k.startswith("out:"):
      rep.outcome(k[4:], v)
  for it in (items[len(items) // 3], items[len(items) // 2], items[-1]):
    rep.sample(samples[it[:2]])

  # group the failing inputs by their minimised representative
  mins = minimise_all(failing)
  groups = collections.defaultdict(list)
  for s, m in mins.items():
    groups[m].append(s)
  reps = sorted(groups, key=_size)
  # the workers share one loader per process: re-derive the representatives with a fresh loader
  fresh = dict(vrun.pmap(recheck, [(m, cb) for m in reps[:40]], seed=seed, chunksize=1))
  for m in reps:
    cls = failing[m]
    if (m, cb) in fresh and cls not in fresh[(m, cb)]:
      raise RuntimeError("C13: %s fails (%s) with the shared loader but not with a fresh one" % (state_text(m), cls))
    members = sorted(groups[m], key=_size)
    by_kind = collections.Counter(s[0] for s in members)
    case = _case(m, cls, cb)
    case["detail"] = details[m]
    case["inputs_reducing_to_this"] = len(members)
    case["inputs_by_kind"] = dict(by_kind)
    case["inputs"] = [state_text(s) for s in members[:300]]
    rep.violation(key_of(m, cls),
                  "%s: %s -- %s [%d enumerated inputs reduce to this one: %s]" % (
                      cls, state_text(m), details[m], len(members),
                      ", ".join("%s %d" % kv for kv in sorted(by_kind.items()))),
                  case)
  rep.cov.update({
      "signatures": len(sigs), "kinds": list(KINDS), "kind_x_signature": len(items),
      "programs_analysed": tot["programs"], "max_calls_per_program": CHUNK,
      "pytype_errors_inside_callee_body": tot["errors-inside-callee-body"],
      "failing_inputs": len(failing), "failing_minimal_forms": len(groups),
      "failing_inputs_by_minimal_form": {state_text(m) + " [" + failing[m] + "]": len(groups[m]) for m in reps[:200]},
      "inspect_bind_disagrees_with_real_call(function kind, informational)":
          tot["inspect_bind_disagrees_with_real_call"],
      "bounds": "tier=%s: signatures with <=%d positional-only, <=%d positional-or-keyword, every trailing run of "
                "defaults, optional *args, <=%d keyword-only each with/without default, optional **kw; every call "
                "shape with 0..%d positional arguments x every keyword subset of size <=%d of {parameter names, "
                "unknown name z}; x %d function kinds" % (tier, mpo, mpk, mko, cb[0], cb[1], len(KINDS)),
  })
  rep.rule = ("evaluation = one call shape of one (kind, signature) program: pytype's errors on that line vs the real "
              "call under CPython, and when both accept the inferred result tuple vs the run-time tuple position by "
              "position; non-trivial = the call passes a keyword argument, or binds while using a default or *args "
              "(fewer/more positionals than positional parameters, or a keyword-only parameter left out)")
  rep.assumptions += [
      "oracle is the actual call executed by the CPython running the check (3.12); inspect.Signature.bind is only "
      "counted as a cross-check",
      "call sites pass plain positional and keyword arguments (no *seq / **mapping unpacking at the call site)",
      "functions are unannotated; every argument/default is an instance of its own empty class",
      "exactness of the binding check: inferred element must be the very class of the run-time value (tuple of "
      "classes for *args, dict[str, union of the value classes] for **kw, dict[nothing, nothing] when empty)",
      "the call shapes of one (kind, signature) are analysed in programs of at most %d calls, one call per line "
      "(pytype's cost per call grows with module length); worker processes reuse one pytd loader, the minimised "
      "failing inputs are re-derived with a fresh loader (and by the runner in a fresh process)" % CHUNK,
  ]


def replay(case):
  boot.load()
  state = _state_of(case)
  kind, sig, npos, kws = state
  _, viol, _ = check_program(kind, sig, tuple(case["call_bound"]), False, only=(npos, kws))
  return [{"key": key_of(state, cls), "summary": "%s: %s -- %s" % (cls, state_text(state), detail)}
          for _, _, cls, detail in viol]
