"""C15: any source is analysed to a result, never an internal failure.

Space: every PS-full program (compilable or not) to a depth; every single-token
deletion / menu-token insertion of a seed subset; the stdlib corpus (thorough).
Oracle: pytype.io.check_or_generate_pyi(nofail=False) returns; if CPython's
compile() rejects the text there is exactly one python-compiler-error at
CPython's line; otherwise a stub is produced that parses; every reported line
is inside the file.
"""

import glob
import re
import io as pyio
import os
import signal
import tokenize
import warnings

from vk import boot, pt, psexpr, psfull, run as vrun

ID = "C15"
LEVEL = "exploration"

HORIZON = 120
_CONSTANT_FOLDER_MSG = re.compile(r"Value after \*\*? must be an? |^TypeError: ")
MENU = ["(", ")", ":", ",", "=", "*", "not", "await", "yield", "lambda", "[", "."]
CHARS = ["\x00", "\x0c", "\ufeff", "\r", "\\\n", "\t", "\x1a", "\u2028"]


def analyse(src, horizon=HORIZON):
  """Returns dict(outcome=..., detail=...) for one source text."""
  boot.load()
  from pytype import config, io
  opts = config.Options.create("prog.py", python_version=(3, 12), nofail=False, check=False)
  opts.open_function = lambda name, mode="r", **kw: pyio.StringIO(src)
  nlines = src.count("\n") + (0 if src.endswith("\n") else 1)
  with warnings.catch_warnings():
    warnings.simplefilter("ignore")
    try:
      compile(src, "prog.py", "exec", dont_inherit=True)
      cerr = None
    except SyntaxError as e:   # includes IndentationError / TabError
      cerr = e
    except (ValueError, RecursionError, MemoryError, OverflowError) as e:
      return {"outcome": "skip-cpython-" + type(e).__name__}

  def on_alarm(signum, frame):
    raise TimeoutError()
  old = signal.signal(signal.SIGALRM, on_alarm)
  signal.alarm(horizon)
  try:
    res = io.check_or_generate_pyi(opts)
  except TimeoutError:
    return {"outcome": "timeout"}
  except BaseException as e:  # pylint: disable=broad-except
    import traceback
    tb = traceback.extract_tb(e.__traceback__)
    site = "%s:%d" % (os.path.basename(tb[-1].filename), tb[-1].lineno) if tb else "?"
    return {"outcome": "escaped", "bad": "internal %s escaped the analysis at %s: %s" % (
        type(e).__name__, site, str(e).split("\n")[0][:120]), "sig": type(e).__name__ + "@" + site}
  finally:
    signal.alarm(0)
    signal.signal(signal.SIGALRM, old)
  errs = [(e.name, e.line, e.message) for e in res.context.errorlog.unique_sorted_errors()]
  bad = None
  sig = None
  if cerr is not None:
    ce = [e for e in errs if e[0] == "python-compiler-error"]
    if len(ce) != 1 or len(errs) != 1:
      bad = "CPython rejects the text (%s, line %s) but pytype reports %s" % (
          cerr.msg, cerr.lineno, [(n, l) for n, l, _ in errs])
      sig = "compile-error-count"
    elif cerr.lineno is None:
      pass   # CPython blames no line (e.g. a NUL byte): any line inside the file will do (checked below)
    elif ce[0][1] != cerr.lineno:
      bad = "CPython blames line %s (%s) but pytype's compiler error is on line %s" % (cerr.lineno, cerr.msg, ce[0][1])
      sig = "compile-error-line"
    out = "compile-error"
  else:
    ce = [e for e in errs if e[0] == "python-compiler-error"]
    if ce and not all(_CONSTANT_FOLDER_MSG.search(e[2]) for e in ce):
      # CPython compiles the text, so a compiler error can only come from pytype's own handling of
      # the source (e.g. its rewriting of annotations producing invalid syntax): an internal failure
      # reported as the user's syntax error.  Only the constant folder's deliberate diagnostics of
      # literals that always raise (`[*1]`, `{**1}`, `{[1]: 2}`) are "a stub plus an error report".
      msg = ce[0][2].split("\n")[0][:120]
      bad = "CPython compiles the text but pytype reports a python-compiler-error on line %s: %s" % (ce[0][1], msg)
      sig = "compiler-error-on-compilable-text:" + re.sub(r"\d+", "N", msg)[:60]
    if bad:
      pass
    elif not res.pyi:
      bad = "no stub produced"
      sig = "no-stub"
    else:
      try:
        from pytype.pyi import parser
        parser.parse_string(res.pyi, options=parser.PyiOptions.from_toplevel_options(opts))
      except Exception as e:  # pylint: disable=broad-except
        bad = "the produced stub does not parse: %s" % str(e).split("\n")[0][:120]
        sig = "stub-unparsable"
    out = "analysed" + ("+errors" if errs else "")
  if bad is None:
    for n, l, _ in errs:
      if l is None or not 1 <= l <= max(nlines, 1):
        bad = "error %s carries line %r outside the file (%d lines)" % (n, l, nlines)
        sig = "line-outside:" + n
        break
  r = {"outcome": out}
  if bad:
    r["bad"] = bad
    r["sig"] = sig
  return r


# ------------------------------------------------------------------ token mutations


def tokens_of(src):
  toks = list(tokenize.generate_tokens(pyio.StringIO(src).readline))
  return [t for t in toks if t.type not in (tokenize.ENDMARKER,)]


def mutants(src):
  """Every single-token deletion and every menu-token insertion at every position (by text offsets)."""
  toks = [t for t in tokens_of(src) if t.type in (tokenize.NAME, tokenize.OP, tokenize.NUMBER, tokenize.STRING)]
  lines = src.split("\n")
  offs = [0]
  for ln in lines:
    offs.append(offs[-1] + len(ln) + 1)

  def pos(rc):
    return offs[rc[0] - 1] + rc[1]
  out = []
  for t in toks:
    s, e = pos(t.start), pos(t.end)
    out.append(("del@%d" % s, src[:s] + src[e:]))
  for t in toks:
    s = pos(t.start)
    for m in MENU:
      out.append(("ins%s@%d" % (m, s), src[:s] + m + " " + src[s:]))
  # raw characters a tokenizer treats specially, at the start, in the middle and at the end
  for ch in CHARS:
    for where in (0, len(src) // 2, len(src)):
      out.append(("chr%r@%d" % (ch, where), src[:where] + ch + src[where:]))
  return out


def seed_programs(n):
  """First n compilable depth-2 programs of distinct (context, form) buckets, round-robin."""
  seeds = []
  for b in psfull.buckets(2):
    for pid, src in psfull.programs(2, bucket=b):
      seeds.append((pid, src))
      break
  return seeds[:n]


def corpus(max_lines):
  root = os.path.dirname(os.__file__)
  files = sorted(glob.glob(os.path.join(root, "*.py")) + glob.glob(os.path.join(root, "*", "*.py")))
  out = []
  for f in files:
    if "/test" in f or "/idlelib" in f or "/lib2to3" in f or "site-packages" in f:
      continue
    try:
      with open(f, encoding="utf-8") as fh:
        src = fh.read()
    except (UnicodeDecodeError, OSError):
      continue
    if src.count("\n") <= max_lines:
      out.append((os.path.relpath(f, root), src))
  return out


def work(item):
  kind, ident, src = item
  if kind == "psfull-bucket":
    res = []
    for pid, s in psfull.space(ident[0], bucket=ident[1]):
      r = analyse(s)
      r["id"] = pid
      res.append(r)
    return res
  if kind == "exprpack":
    # ident = (context, [(id, statement), ...]); the statements are independent `x = <expr>` lines
    ctx, stmts = ident
    if len(stmts) > 1:
      r = analyse(_pack_src(ctx, [st for _, st in stmts]))
      if not r.get("bad") and r["outcome"].startswith("analysed"):
        return [dict(r, id=i) for i, _ in stmts]
    res = []
    for i, st in stmts:   # a pack that failed in any way is re-run one statement per program
      r = analyse(_pack_src(ctx, [st]))
      r["id"] = i
      r["src"] = _pack_src(ctx, [st])
      res.append(r)
    return res
  r = analyse(src)
  r["id"] = ident
  return [r]


PACK = 16


def _pack_src(ctx, stmts):
  if ctx == "mod":
    return psexpr.PRELUDE + "".join(st + "\n" for st in stmts)
  return psexpr.PRELUDE + "def g(a, b, c):\n" + "".join("  " + st + "\n" for st in stmts) + "  return a\n"


def expr_items(depth, core_only, contexts):
  """Work items for PS-expr: `x = <expr>` statements packed PACK per program, everything else alone."""
  items = []
  for ctx in contexts:
    pack = []
    for eid, stmt in psexpr.expressions(depth, core_only):
      eid = eid + "@" + ctx
      if not stmt.startswith("x = ") or not psexpr.compilable(stmt):
        items.append(("exprpack", (ctx, [(eid, stmt)]), None))
        continue
      pack.append((eid, stmt))
      if len(pack) == PACK:
        items.append(("exprpack", (ctx, pack), None))
        pack = []
    if pack:
      items.append(("exprpack", (ctx, pack), None))
  return items


def run(rep, tier, seed):
  depth = 2
  items = [("psfull-bucket", (depth, b), None) for b in psfull.buckets(depth)]
  if tier == "quick":
    # quick: depth 2 in the async-function context (admits the most forms) + depth 1 in every context
    items = [it for it in items if it[1][1][0] == "afn" or (
        it[1][1][0] == "meth" and it[1][1][1] is not None and it[1][1][1][0] in ("def", "class", "asyncdef", "deco", "tryexcept", "with", "if"))]
    items += [("psfull-bucket", (1, b), None) for b in psfull.buckets(1) if b[0] != "afn"]
    nseeds, max_lines = 2, 0
  else:
    nseeds, max_lines = 6, 200
  for pid, src in seed_programs(nseeds):
    for mid, msrc in mutants(src):
      items.append(("mutant", pid + "|" + mid, msrc))
  for name, src in corpus(max_lines) if max_lines else []:
    items.append(("corpus", name, src))
  # PS-expr: expressions (displays, stars, calls, operators, comprehensions...) over colliding atoms,
  # match patterns x subjects, annotated-statement shapes
  if tier == "quick":
    items += expr_items(1, True, ("mod",))
    pats = psexpr.patterns(1, ("na", "nb", "enum", "inst"))
  else:
    items += expr_items(1, False, ("mod", "fn")) + [it for it in expr_items(2, True, ("mod",))
                                                    if it[1][1][0][0].startswith(("expr2:list", "expr2:dict", "expr2:set", "expr2:tuple", "expr2:call", "expr2:sub"))]
    pats = psexpr.patterns(2)
  cpack = []
  for eid, stmt in psexpr.const_displays():
    cpack.append((eid + "@mod", stmt))
    if len(cpack) == PACK:
      items.append(("exprpack", ("mod", cpack), None))
      cpack = []
  if cpack:
    items.append(("exprpack", ("mod", cpack), None))
  n_expr = sum(len(it[1][1]) for it in items if it[0] == "exprpack")
  for pid, src in pats:
    items.append(("pattern", pid, src))
  for aid, src in psexpr.annotations():
    if tier != "quick" or aid.startswith(("ann:mod/", "ann:fn/")):
      items.append(("annot", aid, src))
  for sid, src in psexpr.signatures():
    items.append(("signature", sid, src))
  for did, src in psexpr.directive_programs(tier):
    items.append(("directive", did, src))
  sigs = {}
  for item, results in vrun.pmap(work, items, seed=seed, chunksize=1, progress=2000):
    for r in results:
      rep.evaluations += 1
      rep.outcome(item[0].split("-")[0] + ":" + r["outcome"])
      if r["outcome"] == "timeout":
        rep.cap("timeout (%ds) on %s" % (HORIZON, r["id"]))
      if r["outcome"].startswith("analysed"):
        rep.nontrivial_extra += 1
      if r.get("bad"):
        key = vrun.sha(r["sig"])
        if key not in sigs:
          sigs[key] = True
          src = r.get("src") or (item[2] if item[2] is not None else psfull.source(r["id"]))
          rep.violation(key, "%s [%s]: %s" % (item[0], r["id"], r["bad"]), {"src": src, "sig": r["sig"], "id": r["id"]})
        else:
          rep.outcome("further-inputs-with-a-reported-signature")
  rep.sample({"psfull": psfull.source("afn:tryfull.3>asyncfor.0>break") if tier else ""})
  rep.sample({"mutant_of": seed_programs(1)[0][0], "menu": MENU})
  rep.cov.update({"psfull_depth": depth if tier != "quick" else "2 in context afn, 1 in the other contexts", "mutation_seeds": nseeds, "token_menu": MENU,
                  "corpus_files": sum(1 for i in items if i[0] == "corpus"), "work_items": len(items),
                  "psexpr_statements": n_expr, "psexpr_pack": PACK,
                  "psexpr_patterns": sum(1 for i in items if i[0] == "pattern"),
                  "psexpr_annotated_statements": sum(1 for i in items if i[0] == "annot"),
                  "psexpr_annotated_signatures": sum(1 for i in items if i[0] == "signature"),
                  "directive_comment_programs": sum(1 for i in items if i[0] == "directive")})
  rep.rule = ("every PS-full candidate of the tier (compilable or not), every 1-token deletion / menu insertion of the seed "
              "programs, stdlib files <= max_lines (thorough); non-trivial = sources that compile and were analysed by the VM; "
              "violations are keyed by failure signature (exception type @ raising site, or oracle clause) with the first witness")
  rep.assumptions += ["a timeout (%d s) is reported as not covered, never as a violation" % HORIZON,
                      "CPython's own compile() of the same interpreter version is the reference for compilability and the blamed line"]


def replay(case):
  r = analyse(case["src"])
  if r.get("bad") and r.get("sig") == case["sig"]:
    return [{"key": vrun.sha(r["sig"]), "summary": r["bad"]}]
  return []
