"""C14: errors on fully known code are real; plain type mistakes are caught.

Every statement of a value grammar (operand x operator x operand, unary ops,
subscripts, calls, attribute reads, method calls) is analysed by pytype (packed
many per program, one per line) and executed in isolation under CPython.
"""

import itertools

from vk import boot, pt, run as vrun

ID = "C14"
LEVEL = "exploration"

PRELUDE = '''\
class P:
  pass
class Q:
  def __add__(self, o): return 1
  def __call__(self, *a): return 'c'
  def __getitem__(self, i):
    if i == 2: raise IndexError()
    return i
  def __neg__(self): return self
  def __len__(self): return 0
  def meth(self, a=0): return a
class R:
  def __radd__(self, o): return 'r'
  def __rmul__(self, o): return 'r'
  def __rsub__(self, o): return 'r'
def fn(a): return a
class RA:
  p = 1
class RB:
  q = 1
class U1:
  def __add__(self, o): return RA()
  def __sub__(self, o): return RA()
class U2(U1):
  def __radd__(self, o): return RB()
  def __rsub__(self, o): return RB()
class U3:
  def __radd__(self, o): return RB()
class U4(U3):
  def __radd__(self, o): return RA()
class U5(U2):      # inherits the reflected methods from an intermediate class
  pass
class U6(U1):      # a subclass that does not provide reflected methods at all
  pass
class U7(U5):
  def __rsub__(self, o): return RA()
class MyInt(int):
  def __radd__(self, o): return RB()
class G:
  def __init__(self): self._t = 1
  def __getattr__(self, n): return getattr(self._t, n)
'''

# (expression, kind) kind: builtin value / user instance / callable
OPERANDS = [
    ("1", "b"), ("True", "b"), ("2.5", "b"), ("1j", "b"), ("'s'", "b"), ("b'b'", "b"), ("None", "b"),
    ("[1]", "b"), ("(1, 'a')", "b"), ("{'k': 1}", "b"), ("{1}", "b"), ("frozenset([1])", "b"), ("range(3)", "b"),
    ("[]", "b"), ("{}", "b"), ("()", "b"), ("'0'", "b"), ("0", "b"),
    ("P()", "u"), ("Q()", "u"), ("R()", "u"), ("P", "c"), ("len", "c"), ("fn", "c"), ("(lambda: 0)", "c"),
    ("G()", "d"),    # attributes are dynamic (__getattr__ proxy); dunder lookups still bypass it
]
# operands whose + / - results are RA (has .p) or RB (has .q) depending on forward / reflected dispatch,
# including the "right operand is a subclass that overrides the reflected method" priority rule
RESOPS = ["U1()", "U2()", "U3()", "U4()", "U5()", "U6()", "U7()", "MyInt()", "1", "P()"]
BINOPS = ["+", "-", "*", "/", "//", "%", "**", "@", "<<", ">>", "&", "|", "^", "<", "<=", ">", ">=", "==", "!=", "in"]
UNOPS = ["-", "+", "~", "not "]
ARITH = {"+", "-", "*", "/"}

METHODS = {
    "1": ["bit_length", "conjugate", "to_bytes", "real"],
    "2.5": ["is_integer", "hex", "as_integer_ratio"],
    "'s'": ["upper", "split", "join", "startswith", "find", "format", "encode", "strip", "zfill", "count"],
    "b'b'": ["decode", "hex", "split", "startswith"],
    "[1]": ["append", "extend", "pop", "index", "count", "sort", "copy", "insert"],
    "(1, 'a')": ["index", "count"],
    "{'k': 1}": ["get", "keys", "items", "pop", "update", "setdefault", "copy"],
    "{1}": ["add", "union", "discard", "issubset", "pop"],
    "None": [],
    "Q()": ["meth"],
    "P()": [],
}
ARGS = ["", "1", "'s'", "2.5", "None", "[1]", "1, 1", "'s', 's'", "1, 's'"]
BOGUS = "bogus_attr"


def statements(tier):
  """Yields (statement expression, class) — class in {binop, unop, sub, call, attr, meth}."""
  ops = OPERANDS
  for (a, _), op, (b, _) in itertools.product(ops, BINOPS, ops):
    yield "%s %s %s" % (a, op, b), "binop"
  for op, (a, _) in itertools.product(UNOPS, ops):
    yield "%s%s" % (op, a), "unop"
  for (a, _), (b, _) in itertools.product(ops, ops):
    yield "%s[%s]" % (a, b), "sub"
  for (a, _) in ops:
    yield "%s()" % a, "call"
    for (b, _) in ops[:8] + ops[18:20]:
      yield "%s(%s)" % (a, b), "call"
  for (a, _) in ops:
    yield "%s.%s" % (_paren(a), BOGUS), "attr"
    yield "%s.%s()" % (_paren(a), BOGUS), "attr"
    yield "%s.__class__" % _paren(a), "attr"
  for a, op, b in itertools.product(RESOPS, ("+", "-"), RESOPS):
    for attr in ("p", "q"):
      yield "(%s %s %s).%s" % (a, op, b, attr), "resattr"
  for recv, ms in METHODS.items():
    for m in ms:
      yield "%s.%s" % (_paren(recv), m), "meth"
      for args in ARGS:
        yield "%s.%s(%s)" % (_paren(recv), m, args), "meth"


def _paren(e):
  return "(%s)" % e if e[0].isdigit() or e[0] == "-" else e


def kinds_of(stmt):
  """(all operands builtin?) used by the completeness side."""
  return None


_NSSRC = None


def run_isolated_stmt(stmt):
  """Executes one statement under CPython in a fresh namespace; returns exception class name or None."""
  ns = {"__name__": "__vk_prog__"}
  exec(PRELUDE, ns)  # pylint: disable=exec-used
  import signal

  class _Horizon(BaseException):
    pass

  def _on(signum, frame):
    raise _Horizon()
  old = signal.signal(signal.SIGALRM, _on)
  signal.setitimer(signal.ITIMER_REAL, 5)
  try:
    exec(compile("_ = " + stmt, "<stmt>", "exec"), ns)  # pylint: disable=exec-used
    return None, None
  except _Horizon:
    return "Horizon", "statement did not finish within 5 s"
  except BaseException as e:  # pylint: disable=broad-except
    return type(e).__name__, str(e)[:120]
  finally:
    signal.setitimer(signal.ITIMER_REAL, 0)
    signal.signal(signal.SIGALRM, old)


def operand_kinds(stmt, cls):
  """Kinds of the operands of a binop/unop/sub statement, else None."""
  table = dict(OPERANDS)
  if cls == "binop":
    for op in sorted(BINOPS, key=len, reverse=True):
      sep = " %s " % op
      if sep in stmt:
        a, b = stmt.split(sep, 1)
        if a in table and b in table:
          return op, (table[a], table[b])
  if cls == "unop":
    for op in UNOPS:
      if stmt.startswith(op) and stmt[len(op):] in table:
        return op.strip(), (table[stmt[len(op):]],)
  if cls == "sub" and stmt.endswith("]"):
    for a in table:
      if stmt.startswith(a + "[") and stmt[len(a) + 1:-1] in table:
        return "[]", (table[a], table[stmt[len(a) + 1:-1]])
  return None, None


def advertised(stmt, cls, exc, msg):
  """Is this CPython failure in the classes pytype advertises to catch?"""
  if exc == "AttributeError" and cls == "attr" and BOGUS in stmt:
    recv = stmt.split("." + BOGUS)[0].strip("()")
    k = dict(OPERANDS).get(recv) or dict(OPERANDS).get("(%s)" % recv)
    return k in ("b", "u")
  if exc == "AttributeError" and cls == "resattr" and ("'RA' object" in (msg or "") or "'RB' object" in (msg or "")):
    return True    # a missing attribute on a user-class instance (the result of the operator)
  if exc == "TypeError" and cls == "call" and "not callable" in (msg or ""):
    return True
  if exc == "TypeError" and cls in ("binop", "unop", "sub"):
    op, kinds = operand_kinds(stmt, cls)
    if kinds and all(k == "b" for k in kinds):
      if cls == "binop" and op in ARITH:
        return True
      if cls == "unop" and op == "-":
        return True
      if cls == "sub":
        return True
  return False


PACK = 400


def work(chunk):
  """chunk: list of (stmt, cls). Returns (violations, stats)."""
  lines = PRELUDE.rstrip("\n").split("\n")
  first = len(lines) + 1
  for stmt, _ in chunk:
    lines.append("_ = " + stmt)
  src = "\n".join(lines) + "\n"
  res = pt.analyze(src, share=SHARE)
  flagged = {}
  for name, line, msg in res.errors:
    flagged.setdefault(line, []).append(name)
  bad = []
  stats = {"flagged": 0, "raises_type": 0, "clean": 0, "advertised": 0, "other_exc": 0}
  for k, (stmt, cls) in enumerate(chunk):
    exc, msg = run_isolated_stmt(stmt)
    names = flagged.get(first + k, [])
    real = exc in ("TypeError", "AttributeError")
    if exc is None:
      stats["clean"] += 1
    elif real:
      stats["raises_type"] += 1
    else:
      stats["other_exc"] += 1
    if names:
      stats["flagged"] += 1
      if not real:
        bad.append((stmt, "sound", "pytype reports %s on `%s` but CPython %s" % (
            names, stmt, "runs it cleanly" if exc is None else "raises %s (%s)" % (exc, msg))))
    elif real and advertised(stmt, cls, exc, msg):
      bad.append((stmt, "complete", "`%s` raises %s (%s) under CPython but pytype reports nothing" % (stmt, exc, msg)))
    if real and advertised(stmt, cls, exc, msg):
      stats["advertised"] += 1
  for line in flagged:
    if not first <= line < first + len(chunk):
      bad.append(("<prelude>", "sound", "error %s on prelude line %d" % (flagged[line], line)))
  return bad, stats


SHARE = False


def all_statements(tier):
  seen, out = set(), []
  for s, c in statements(tier):
    if s not in seen:
      seen.add(s)
      out.append((s, c))
  return out


def run(rep, tier, seed):
  global SHARE
  SHARE = tier == "quick"
  sts = all_statements(tier)
  chunks = [sts[i:i + PACK] for i in range(0, len(sts), PACK)]
  for chunk, (bad, stats) in vrun.pmap(work, chunks, seed=seed, chunksize=1):
    rep.evaluations += len(chunk)
    rep.nontrivial_extra += stats["flagged"] + stats["advertised"]
    for k, v in stats.items():
      rep.outcome(k, v)
    for stmt, direction, msg in bad:
      rep.violation(vrun.sha(direction + "|" + stmt), msg, {"stmt": stmt, "direction": direction})
  rep.sample({"statements": [s for s, _ in sts[:5]] + [s for s, _ in sts[-5:]]})
  rep.cov.update({"statements": len(sts), "packed_programs": len(chunks), "operands": len(OPERANDS)})
  rep.rule = ("every statement of the value grammar, analysed packed %d per program and executed alone under CPython; "
              "non-trivial = statements pytype flags or whose CPython failure is in an advertised class" % PACK)
  rep.assumptions += ["soundness side applies to every statement; completeness side only to bogus attributes on builtin/"
                      "user instances, 'not callable', and + - * / unary - and subscripts between builtin operands"]


def replay(case):
  boot.load()
  sts = dict(all_statements("quick"))
  stmt = case["stmt"]
  bad, _ = work([(stmt, sts.get(stmt, "binop"))])
  return [{"key": vrun.sha(d + "|" + s), "summary": m} for s, d, m in bad if d == case["direction"]]
