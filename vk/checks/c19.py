"""C19: the whole-project build plan orders every analysis after the stubs it reads.

Bounded-exhaustive over project import graphs.  For every labelled import
digraph of the bound x module kinds x directory-name scheme, the project is
written to a scratch directory and for EVERY non-empty subset of requested
files the real pipeline of pytype/tools/analyze_project/main.py is driven end
to end:

    compute_pythonpath -> create_importlab_environment ->
    importlab.graph.ImportGraph.create(trim=True) -> deps_from_import_graph ->
    PytypeRunner.setup_build

The written build.ninja and *.imports files are then parsed back by an
independent implementation of ninja's lexer/evaluation rules (the MODEL) and

 * invariants are checked on the model (one check step per requested file,
   unique outputs, imports-map values are default.pyi or declared outputs,
   every direct import of a step's module is fed by a stub produced for that
   import, all paths un-escape to the strings that exist on disk),
 * ALL schedules of the plan are explored explicitly with vk.explore
   (state = set of finished steps; a step is enabled when all its declared
   inputs that are plan outputs are finished); on every transition every stub
   the step's imports map names must already have been produced; the complete
   plan must be reachable (no deadlock),
 * the model is validated against the implementation that consumes the plan:
   the real ninja binary's `-t query` and `-t commands` views
   must equal the parsed graph / evaluated commands, and
   pytype.imports_map_loader must read the same imports maps.
"""

import collections
import copy
import functools
import itertools
import logging
import os
import re
import shutil
import subprocess
import tempfile

from vk import boot, explore, run as vrun

ID = "C19"
LEVEL = "model_checking"
NEEDS_EXT = True     # pytype.tools.environment -> typeshed -> pyi parser -> cfg

# --------------------------------------------------------------------------- bounds

KINDS = "LPSBXE"
KIND_DOC = {
    "L": "plain local module m.py",
    "P": "package: m/__init__.py",
    "S": "m.py that also imports the System module os",
    "B": "m.py that also imports the Builtin module sys",
    "X": "m.py that also imports a module that does not exist",
    "E": "m.py that also imports pytype_extensions (a System module that, unlike others, gets its own infer step)",
}
# (project root directory name, output directory name) per scheme
DIRS = {
    "plain": ("proj", "out"),
    "space": ("pr oj", "o ut"),
    "dollar": ("pr$oj", "ou$t"),
    "colon": ("pr:oj", "o:ut"),
    "all": ("p r$o:j$ $:k", "o u$t:$$ :$ w"),
}
SCHEMES = tuple(DIRS)
PREFIX = "vkq"            # module i is vkq<i>; not importable in the check process
MISSING = "vkq_absent_mod"


def pairs(n):
  return [(i, j) for i in range(n) for j in range(n) if i != j]


def all_digraphs(n):
  ps = pairs(n)
  for mask in range(1 << len(ps)):
    yield tuple(p for k, p in enumerate(ps) if mask >> k & 1)


def _ring(nodes):
  k = len(nodes)
  return [(nodes[i], nodes[(i + 1) % k]) for i in range(k)]


def family_graphs(sizes=(5, 6)):
  """Rings, rings with a tail, two rings, two rings sharing a node; total size in `sizes`.

  Yields (name, n, edges) for the natural labelling and for the reversed one.
  """
  out = []
  for n in sizes:
    out.append(("ring%d" % n, n, _ring(list(range(n)))))
    for r in range(2, n):
      t = n - r
      ring = _ring(list(range(r)))
      tail = list(range(r, n))
      chain = [(tail[i], tail[i + 1]) for i in range(t - 1)]
      # the tail imports the ring / the ring imports the tail
      out.append(("ring%d<-tail%d" % (r, t), n, ring + chain + [(tail[-1], 0)]))
      out.append(("ring%d->tail%d" % (r, t), n, ring + [(0, tail[0])] + chain))
    for r1 in range(2, n - 1):
      r2 = n - r1
      a, b = list(range(r1)), list(range(r1, n))
      base = _ring(a) + _ring(b)
      out.append(("rings%d+%d" % (r1, r2), n, base))
      out.append(("rings%d->%d" % (r1, r2), n, base + [(a[0], b[0])]))
      out.append(("rings%d<-%d" % (r1, r2), n, base + [(b[0], a[0])]))
    for r1 in range(2, n):
      r2 = n + 1 - r1
      if r2 < 2:
        continue
      a = list(range(r1))
      b = [0] + list(range(r1, n))
      out.append(("eight%d+%d" % (r1, r2), n, _ring(a) + _ring(b)))
  for name, n, edges in out:
    yield name, n, tuple(sorted(set(edges)))
    yield name + "/rev", n, tuple(sorted(set((n - 1 - i, n - 1 - j) for i, j in edges)))


def specs_for(tier):
  """The complete list of project specs (n, edges, kinds, root scheme, out scheme, request mode) of a tier.

  Request mode: which (ordered) lists of requested files are run for the project - every non-empty subset
  listed ascending ("asc"), descending ("desc"), or every permutation of every non-empty subset ("perms").
  """
  specs = []
  fam = collections.OrderedDict()

  def add(label, n, graphs, kindvecs, dirpairs, orders=("asc",)):
    c = 0
    for es in graphs:
      for kv in kindvecs:
        for rs, os_ in dirpairs:
          for order in orders:
            specs.append((n, tuple(es), "".join(kv), rs, os_, order))
            c += 1
    fam[label] = fam.get(label, 0) + c

  diag = [(s, s) for s in SCHEMES]
  cross = [(a, b) for a in SCHEMES for b in SCHEMES]
  if tier == "quick":
    add("n=1 x kinds x 25 dir pairs", 1, list(all_digraphs(1)), list(KINDS), cross)
    add("n=2 x all 4 digraphs x kinds^2 x dirs(all,all) x all request permutations", 2, list(all_digraphs(2)),
        list(itertools.product(KINDS, repeat=2)), [("all", "all")], ("perms",))
    add("n=2 x all 4 digraphs x LL x 24 other dir pairs", 2, list(all_digraphs(2)),
        ["LL"], [d for d in cross if d != ("all", "all")])
    add("n=3 x all 64 digraphs x {L,P,S}^3 x dirs(all,all)", 3, list(all_digraphs(3)),
        list(itertools.product("LPS", repeat=3)), [("all", "all")])
    add("n=3 x all 64 digraphs x uniform kinds B,X x dirs(all,all)", 3, list(all_digraphs(3)),
        ["BBB", "XXX"], [("all", "all")])
    add("n=3 x all 64 digraphs x LLL x 4 other diagonal dir schemes", 3, list(all_digraphs(3)),
        ["LLL"], [d for d in diag if d[0] != "all"])
    add("n=3 x all 64 digraphs x LLL x dirs(all,all) x all request permutations", 3,
        list(all_digraphs(3)), ["LLL"], [("all", "all")], ("perms",))
  else:
    add("n=1 x kinds x 25 dir pairs", 1, list(all_digraphs(1)), list(KINDS), cross)
    add("n=2 x all 4 digraphs x kinds^2 x 5 diagonal dir schemes x all request permutations", 2,
        list(all_digraphs(2)), list(itertools.product(KINDS, repeat=2)), diag, ("perms",))
    add("n=2 x all 4 digraphs x LL x 20 off-diagonal dir pairs", 2, list(all_digraphs(2)),
        ["LL"], [d for d in cross if d[0] != d[1]])
    add("n=3 x all 64 digraphs x kinds^3 (125) x dirs(all,all)", 3, list(all_digraphs(3)),
        list(itertools.product(KINDS, repeat=3)), [("all", "all")])
    add("n=3 x all 64 digraphs x LLL x 4 other diagonal dir schemes", 3, list(all_digraphs(3)),
        ["LLL"], [d for d in diag if d[0] != "all"])
    add("n=3 x all 64 digraphs x {L,S}^3 x dirs(all,all) x all request permutations", 3,
        list(all_digraphs(3)), list(itertools.product("LS", repeat=3)), [("all", "all")], ("perms",))
    add("n=4 x all 4096 digraphs x LLLL x dirs(all,all)", 4,
        list(all_digraphs(4)), ["LLLL"], [("all", "all")])
    for name, n, es in family_graphs((5, 6)):
      add("ring / ring+tail / two rings / two rings sharing a module on 5-6 modules, both labellings "
          "x {all L, LPSLPS, all S} x dirs(all,all) x requests ascending and descending", n, [es],
          ["L" * n, ("LPS" * 2)[:n], "S" * n], [("all", "all")], ("asc", "desc"))
  return specs, fam


def subsets(n):
  for mask in range(1, 1 << n):
    yield tuple(i for i in range(n) if mask >> i & 1)


def requests(n, mode):
  """The ordered lists of requested modules run for one project."""
  for sub in subsets(n):
    if mode == "asc":
      yield sub
    elif mode == "desc":
      yield sub[::-1]
    elif mode == "perms":
      yield from itertools.permutations(sub)
    else:
      raise ValueError(mode)


@functools.lru_cache(None)
def n_requests(n, mode):
  return sum(1 for _ in requests(n, mode))


# --------------------------------------------------------------------------- project writer + oracle facts


_EXT_DIR = []


def _is_ext_file(path):
  """Whether path lies in the installed/checked-out pytype_extensions package (found independently)."""
  if not _EXT_DIR:
    import importlib.util
    spec = importlib.util.find_spec("pytype_extensions")
    _EXT_DIR.append(os.path.dirname(os.path.realpath(spec.origin)) if spec and spec.origin else "")
  return bool(_EXT_DIR[0]) and os.path.realpath(path).startswith(_EXT_DIR[0] + os.sep)


class Project:
  """Files on disk for one spec, plus what the harness knows independently of pytype."""

  def __init__(self, where, spec):
    n, edges, kinds, rs, os_ = spec[:5]
    self.spec = spec
    self.n = n
    self.edges = [tuple(e) for e in edges]
    self.kinds = kinds
    self.where = where
    self.root = os.path.join(where, DIRS[rs][0])
    self.outname = DIRS[os_][1]
    self.src = []
    self.key = []      # imports-map key of module i = path relative to the root, no extension
    self.imports = [[j for (i, j) in self.edges if i == m] for m in range(n)]
    os.makedirs(self.root)
    for m in range(n):
      name = "%s%d" % (PREFIX, m)
      if kinds[m] == "P":
        os.makedirs(os.path.join(self.root, name))
        path = os.path.join(self.root, name, "__init__.py")
        self.key.append(name + "/__init__")
      else:
        path = os.path.join(self.root, name + ".py")
        self.key.append(name)
      lines = ["import %s%d" % (PREFIX, j) for j in self.imports[m]]
      if kinds[m] == "S":
        lines.append("import os")
      elif kinds[m] == "B":
        lines.append("import sys")
      elif kinds[m] == "X":
        lines.append("import " + MISSING)
      elif kinds[m] == "E":
        lines.append("import pytype_extensions")
      lines.append("x%d = %d" % (m, m))
      with open(path, "w") as f:
        f.write("\n".join(lines) + "\n")
      self.src.append(path)

  def reach(self, request):
    seen = set(request)
    st = list(request)
    while st:
      x = st.pop()
      for y in self.imports[x]:
        if y not in seen:
          seen.add(y)
          st.append(y)
    return seen

  def scc_of(self, members):
    """Map module -> frozenset of its strongly connected component within `members`."""
    fwd = {m: self._closure(m, members) for m in members}
    return {m: frozenset(x for x in fwd[m] if m in fwd[x]) for m in members}

  def _closure(self, m, members):
    seen = {m}
    st = [m]
    while st:
      x = st.pop()
      for y in self.imports[x]:
        if y in members and y not in seen:
          seen.add(y)
          st.append(y)
    return seen


# --------------------------------------------------------------------------- the model: ninja lexer / parser / evaluator


class NinjaError(Exception):
  pass


_VARNAME = re.compile(r"[a-zA-Z0-9_.-]+")
_SIMPLE = re.compile(r"[a-zA-Z0-9_-]+")
_COMMENT = re.compile(r"[ ]*#[^\n]*\n")
_NEWLINE = re.compile(r"[ ]*\r?\n")
_INDENT = re.compile(r"[ ]+")
_RULE_KEYS = {"command", "depfile", "dyndep", "description", "deps", "generator", "pool",
              "restat", "rspfile", "rspfile_content", "msvc_deps_prefix"}


class _Env:

  def __init__(self, parent=None):
    self.vars = {}
    self.parent = parent

  def lookup(self, name):
    e = self
    while e is not None:
      if name in e.vars:
        return e.vars[name]
      e = e.parent
    return ""


def _evaluate(parts, lookup):
  return "".join(p[1] if p[0] == "lit" else lookup(p[1]) for p in parts)


def canon_path(p):
  """ninja's CanonicalizePath for the cases that can arise (//, /./, /../)."""
  if not p:
    raise NinjaError("empty path")
  absolute = p.startswith("/")
  comps = []
  for c in p.split("/"):
    if c in ("", "."):
      continue
    if c == ".." and comps and comps[-1] != "..":
      comps.pop()
      continue
    comps.append(c)
  s = "/".join(comps)
  return ("/" + s) if absolute else (s or ".")


class _Lexer:
  """Character-level lexer following ninja's lexer.in.cc."""

  def __init__(self, text):
    self.s = text
    self.i = 0

  def err(self, msg):
    line = self.s.count("\n", 0, self.i) + 1
    raise NinjaError("line %d: %s" % (line, msg))

  def eat_ws(self):
    while True:
      if self.s.startswith(" ", self.i):
        self.i += 1
      elif self.s.startswith("$\n", self.i):
        self.i += 2
      elif self.s.startswith("$\r\n", self.i):
        self.i += 3
      else:
        return

  def token(self):
    """Returns one of EOF NEWLINE INDENT = : | || |@ or ('id', text)."""
    s = self.s
    while True:
      m = _COMMENT.match(s, self.i)
      if m:
        self.i = m.end()
        continue
      break
    if self.i >= len(s):
      return "EOF"
    m = _NEWLINE.match(s, self.i)
    if m:
      self.i = m.end()
      return "NEWLINE"
    m = _INDENT.match(s, self.i)
    if m:
      self.i = m.end()
      return "INDENT"
    m = _VARNAME.match(s, self.i)
    if m:
      self.i = m.end()
      self.eat_ws()
      return ("id", m.group())
    for t in ("||", "|@", "|", "=", ":"):
      if s.startswith(t, self.i):
        self.i += len(t)
        self.eat_ws()
        return t
    self.err("unexpected character %r" % s[self.i:self.i + 1])

  def peek(self, want):
    save = self.i
    t = self.token()
    if t == want:
      return True
    self.i = save
    return False

  def expect(self, want):
    t = self.token()
    if t != want:
      self.err("expected %s, got %r" % (want, t))

  def ident(self):
    m = _VARNAME.match(self.s, self.i)
    if not m:
      self.err("expected identifier")
    self.i = m.end()
    self.eat_ws()
    return m.group()

  def evalstring(self, path):
    """ReadEvalString: list of ('lit', text) / ('var', name)."""
    s = self.s
    parts = []

    def lit(t):
      if parts and parts[-1][0] == "lit":
        parts[-1] = ("lit", parts[-1][1] + t)
      else:
        parts.append(("lit", t))
    while True:
      if self.i >= len(s):
        self.err("unexpected EOF")
      c = s[self.i]
      if c == "$":
        n = s[self.i + 1:self.i + 2]
        if n == "$":
          lit("$"); self.i += 2
        elif n == " ":
          lit(" "); self.i += 2
        elif n == ":":
          lit(":"); self.i += 2
        elif n == "\n" or s.startswith("\r\n", self.i + 1):
          self.i += 2 if n == "\n" else 3
          while s.startswith(" ", self.i):
            self.i += 1
        elif n == "{":
          m = _VARNAME.match(s, self.i + 2)
          if not m or s[m.end():m.end() + 1] != "}":
            self.err("bad $-escape (literal $ must be written as $$)")
          parts.append(("var", m.group())); self.i = m.end() + 1
        else:
          m = _SIMPLE.match(s, self.i + 1)
          if not m:
            self.err("bad $-escape (literal $ must be written as $$)")
          parts.append(("var", m.group())); self.i = m.end()
      elif c == "\n" or s.startswith("\r\n", self.i):
        if path:
          break
        self.i += 1 if c == "\n" else 2
        break
      elif c in " :|":
        if path:
          break
        lit(c); self.i += 1
      elif c == "\0":
        self.err("unexpected NUL")
      else:
        j = self.i
        while j < len(s) and s[j] not in "$ :\r\n|\0":
          j += 1
        if j == self.i:     # a lone \r
          self.err("carriage return")
        lit(s[self.i:j]); self.i = j
    if path:
      self.eat_ws()
    return parts


class Step:
  __slots__ = ("outs", "iouts", "rule", "ins", "implicit", "order", "env", "line")

  def var(self, name):
    return self.env.vars.get(name)


class Plan:
  """build.ninja parsed into rules and build steps (all paths un-escaped)."""

  def __init__(self, text):
    self.rules = {}
    self.steps = []
    self.defaults = []
    self.top = _Env()
    lx = _Lexer(text)
    while True:
      t = lx.token()
      if t == "EOF":
        break
      if t == "NEWLINE":
        continue
      if t == "INDENT":
        lx.err("unexpected indent")
      if not isinstance(t, tuple):
        lx.err("unexpected %r" % (t,))
      word = t[1]
      if word == "rule":
        self._rule(lx)
      elif word == "build":
        self._build(lx)
      elif word == "default":
        while True:
          p = lx.evalstring(True)
          if not p:
            break
          self.defaults.append(canon_path(_evaluate(p, self.top.lookup)))
        lx.expect("NEWLINE")
      elif word in ("pool", "include", "subninja"):
        lx.err("%s statements are not modelled" % word)
      else:
        lx.expect("=")
        val = lx.evalstring(False)
        self.top.vars[word] = _evaluate(val, self.top.lookup)

  def _rule(self, lx):
    name = lx.ident()
    lx.expect("NEWLINE")
    if name in self.rules or name == "phony":
      lx.err("duplicate rule '%s'" % name)
    b = {}
    while lx.peek("INDENT"):
      k = lx.ident()
      lx.expect("=")
      v = lx.evalstring(False)
      if k not in _RULE_KEYS:
        lx.err("unexpected variable '%s'" % k)
      b[k] = v
    if "command" not in b:
      lx.err("expected 'command =' line")
    self.rules[name] = b

  def _paths(self, lx):
    out = []
    while True:
      p = lx.evalstring(True)
      if not p:
        return out
      out.append(p)

  def _build(self, lx):
    st = Step()
    st.line = lx.s.count("\n", 0, lx.i) + 1
    outs = self._paths(lx)
    iouts = self._paths(lx) if lx.peek("|") else []
    if not outs and not iouts:
      lx.err("expected path")
    lx.expect(":")
    st.rule = lx.ident()
    if st.rule != "phony" and st.rule not in self.rules:
      lx.err("unknown build rule '%s'" % st.rule)
    ins = self._paths(lx)
    imp = self._paths(lx) if lx.peek("|") else []
    order = self._paths(lx) if lx.peek("||") else []
    if lx.peek("|@"):
      lx.err("validations are not modelled")
    lx.expect("NEWLINE")
    env = _Env(self.top)
    while lx.peek("INDENT"):
      k = lx.ident()
      lx.expect("=")
      v = lx.evalstring(False)
      env.vars[k] = _evaluate(v, self.top.lookup)
    st.env = env
    ev = lambda ps: [canon_path(_evaluate(p, env.lookup)) for p in ps]
    st.outs, st.iouts, st.ins, st.implicit, st.order = ev(outs), ev(iouts), ev(ins), ev(imp), ev(order)
    self.steps.append(st)

  # ninja's EdgeEnv: $in/$out shell-escaped; edge bindings, then rule bindings, then file scope
  def edge_var(self, st, name, depth=0):
    if depth > 20:
      raise NinjaError("cycle in rule variables")
    if name in ("in", "in_newline"):
      return (" " if name == "in" else "\n").join(shell_escape(p) for p in st.ins)
    if name == "out":
      return " ".join(shell_escape(p) for p in st.outs)
    if name in st.env.vars:
      return st.env.vars[name]
    rb = self.rules.get(st.rule, {})
    if name in rb:
      return _evaluate(rb[name], lambda v: self.edge_var(st, v, depth + 1))
    return self.top.lookup(name)

  def command(self, st):
    return self.edge_var(st, "command")


_SAFE = re.compile(r"[A-Za-z0-9_+\-./]*\Z")


def shell_escape(p):
  """ninja's GetShellEscapedString."""
  if _SAFE.match(p):
    return p
  return "'" + p.replace("'", "'\\''") + "'"


def read_imports_file(path):
  """Independent reader of a .imports file: list of (key, value)."""
  items = []
  with open(path) as f:
    for line in f.read().split("\n"):
      if not line.strip():
        continue
      k, sep, v = line.partition(" ")
      if not sep:
        raise ValueError("malformed imports line %r" % line)
      items.append((k, v))
  return items


# --------------------------------------------------------------------------- explorer model: all schedules


class Sched(explore.Model):
  """state = set of finished steps; op = index of the step that runs next."""

  def __init__(self, needs, reads, names):
    self.needs = needs      # step -> set of steps whose outputs it declares as inputs
    self.reads = reads      # step -> {stub path: producing step} for stubs named in its imports map
    self.names = names

  def build(self, hist):
    return set(hist)

  def enabled(self, s, hist):
    return [i for i in range(len(self.needs)) if i not in s and self.needs[i] <= s]

  def apply(self, s, op):
    s.add(op)

  def canon(self, s, hist):
    return frozenset(s)

  def check(self, s, hist):
    if not hist:
      return []
    op = hist[-1]
    bad = sorted(p for p, prod in self.reads[op].items() if prod == op or prod not in s)
    if bad:
      return [("sched", "schedule %s runs '%s' which reads %s before it is produced (not among its "
               "declared dependencies, directly or transitively)"
               % ([self.names[i] for i in hist], self.names[op], bad[:2]))]
    return []


class _Collect:
  def __init__(self):
    self.v = []
    self.caps = []

  def violation(self, key, summ, case):
    self.v.append(summ)

  def cap(self, what):
    self.caps.append(what)


# --------------------------------------------------------------------------- driving the real pipeline

_W = {}


def _worker_init(base):
  """Per-process set-up (typeshed, arg parser, temp dir redirected into the scratch area)."""
  if _W.get("base") == base:
    return _W
  boot.load()
  logging.disable(logging.CRITICAL)
  tmp = os.path.join(base, "tmp")
  os.makedirs(tmp, exist_ok=True)
  tempfile.tempdir = tmp      # importlab's OSFileSystem leaks one mkstemp() file + fd per instance
  from pytype import imports_map_loader
  from pytype.tools import environment
  from pytype.tools.analyze_project import environment as ap_env
  from pytype.tools.analyze_project import parse_args
  from pytype.tools.analyze_project import pytype_runner
  import importlab.graph
  _W.update(base=base, environment=environment, ap_env=ap_env,
            runner=pytype_runner, graph=importlab.graph, loader=imports_map_loader,
            conf0=parse_args.make_parser().config_from_defaults(),
            typeshed=environment.initialize_typeshed_or_die(),
            ninja=_ninja_binary(), seq=0)
  return _W


def _ninja_binary():
  try:
    import ninja  # the pip package that /venv/bin/ninja execs
    b = os.path.join(ninja.BIN_DIR, "ninja")
    if os.access(b, os.X_OK):
      return b
  except Exception:  # pylint: disable=broad-except
    pass
  return shutil.which("ninja") or "/venv/bin/ninja"


def generate_plan(w, proj, request, outdir):
  """main.py's pipeline from a populated config to setup_build().  Returns the runner."""
  conf = copy.copy(w["conf0"])      # = parser.config_from_defaults(), made once per process
  # main.py holds the inputs in a set, so the order in which importlab sees them is an accident of string
  # hashing (it decides topological ties and therefore the shape of the plan); the harness pins it with a
  # list, which every consumer only iterates or passes to set()
  conf.inputs = [proj.src[i] for i in request]
  conf.output = outdir
  conf.pythonpath = w["environment"].compute_pythonpath(conf.inputs)
  # importlab.fs.OSFileSystem.__init__ calls tempfile.mkstemp() and drops the descriptor and the file:
  # give them back right away (workers are recycled as well, see run()).
  leaked = []
  real_mkstemp = tempfile.mkstemp

  def mkstemp(*a, **k):
    r = real_mkstemp(*a, **k)
    leaked.append(r)
    return r
  tempfile.mkstemp = mkstemp
  try:
    env = w["ap_env"].create_importlab_environment(conf, w["typeshed"])
  finally:
    tempfile.mkstemp = real_mkstemp
    for fd, path in leaked:
      try:
        os.close(fd)
        os.unlink(path)
      except OSError:
        pass
  graph = w["graph"].ImportGraph.create(env, conf.inputs, trim=True)
  os.makedirs(conf.output, exist_ok=True)
  deps = w["runner"].deps_from_import_graph(graph)
  runner = w["runner"].PytypeRunner(conf, deps)
  files = runner.setup_build()
  return runner, files


class _Opts:
  open_function = staticmethod(open)


def check_plan(w, proj, request, outdir, stats):
  """Runs the pipeline for one request and checks the model invariants + all schedules.

  Returns (violations [str], plan or None).
  """
  bad = []
  try:
    runner, files = generate_plan(w, proj, request, outdir)
  except (Exception, SystemExit) as e:  # pylint: disable=broad-except
    return ["pipeline raised %s: %s" % (type(e).__name__, str(e)[:200])], None
  ninja_file = os.path.join(outdir, "build.ninja")
  try:
    with open(ninja_file) as f:
      plan = Plan(f.read())
  except (NinjaError, OSError) as e:
    return ["build.ninja does not parse under ninja's lexer rules: %s" % e], None
  steps = plan.steps
  stats["steps"] += len(steps)
  default_pyi = os.path.join(outdir, "imports", "default.pyi")
  if not os.path.isfile(default_pyi):
    bad.append("default stub %s was not written" % default_pyi)
  src_index = {p: i for i, p in enumerate(proj.src)}
  reach = proj.reach(request)
  scc = proj.scc_of(reach)

  # ---- shape of every step; outputs unique; paths are the original strings
  producer = {}
  for k, st in enumerate(steps):
    if st.rule not in ("check", "infer"):
      bad.append("step %d uses rule %r" % (k, st.rule))
    if len(st.outs) != 1 or st.iouts or st.order or len(st.ins) != 1:
      bad.append("step %d is not 'one output: rule one-input | deps'" % k)
    for o in st.outs + st.iouts:
      if o in producer:
        bad.append("output %s is declared by two build steps" % o)
      producer.setdefault(o, k)
      if not o.startswith(outdir + os.sep):
        bad.append("output %r is not under the configured output directory %r" % (o, outdir))
    for i in st.ins:
      if i not in src_index:
        # pytype's own pytype_extensions library is the one non-project module that gets a step
        if _is_ext_file(i) and "E" in [proj.kinds[m] for m in reach]:
          if st.rule != "infer":
            bad.append("step %d reports errors for %r, a library file nobody requested" % (k, i))
        else:
          bad.append("step %d analyses %r which is not a project file (path mangled?)" % (k, i))
      elif src_index[i] not in reach:
        bad.append("step %d analyses %r which the requested files do not reach" % (k, i))
    for d in st.implicit + st.order:
      if d not in producer and not os.path.exists(d):
        # may be produced by a later statement; re-checked below
        pass
  for k, st in enumerate(steps):
    for d in st.implicit + st.order:
      if d not in producer and not os.path.exists(d):
        bad.append("step %d depends on %r: neither a plan output nor an existing file" % (k, d))
  if bad:
    return bad, plan

  mod_of = [src_index.get(st.ins[0]) for st in steps]   # None: a step for the pytype_extensions library
  steps_of = collections.defaultdict(list)
  for k, m in enumerate(mod_of):
    if m is not None:
      steps_of[m].append(k)

  # ---- each requested file is analysed for errors exactly once; nothing else is
  for m in range(proj.n):
    c = sum(1 for k in steps_of[m] if steps[k].rule == "check")
    if m in request and c != 1:
      bad.append("requested file %s has %d check steps (want exactly 1)" % (proj.key[m], c))
    if m not in request and c:
      bad.append("file %s was not requested but has %d check steps" % (proj.key[m], c))

  # ---- imports maps
  maps = []
  for k, st in enumerate(steps):
    imp = st.var("imports")
    if not imp or not os.path.isfile(imp):
      bad.append("step %d: imports variable %r does not name a file that was written" % (k, imp))
      maps.append({})
      continue
    if not imp.startswith(outdir + os.sep):
      bad.append("step %d: imports file %r is outside the output directory" % (k, imp))
    try:
      items = read_imports_file(imp)
    except ValueError as e:
      bad.append("step %d: %s" % (k, e))
      maps.append({})
      continue
    mine = {}
    for key, val in items:
      if key in mine and mine[key] != val:
        bad.append("step %d: imports map has two values for %s" % (k, key))
      mine[key] = val
      if val != default_pyi and val not in producer:
        bad.append("step %d (%s): imports-map entry %s -> %r is neither the default stub nor a "
                   "declared output of a build step" % (k, st.outs[0], key, val))
    maps.append(mine)
    # the consumer's reader must see the same map (keys without extension, absolute paths)
    try:
      got = w["loader"].ImportsMapBuilder(_Opts).build_from_file(imp)
      theirs = {} if got is None else {a: b for a, b in got.items.items() if b != os.devnull}
    except Exception as e:  # pylint: disable=broad-except
      theirs = {"<error>": "%s: %s" % (type(e).__name__, e)}
    want = {os.path.splitext(a)[0]: os.path.abspath(b) for a, b in mine.items()}
    if theirs != want:
      diff = sorted(set(theirs.items()) ^ set(want.items()))[:2]
      bad.append("step %d: imports_map_loader reads %s differently from the file's text: %s"
                 % (k, os.path.basename(imp), diff))
  if bad:
    return bad, plan

  # ---- every direct import of the analysed module is fed by a stub made from that import
  for k, st in enumerate(steps):
    m = mod_of[k]
    if m is None:
      continue
    # A step must see the stubs of the whole cycle it is part of if it reports errors or if its
    # output is what modules outside the cycle read; any other step of a cycle member may be a
    # first pass, for which only imports from outside the cycle have to be available.
    final = st.rule == "check" or any(
        mod_of[k2] not in scc[m] and st.outs[0] in maps[k2].values() for k2 in range(len(steps)))
    for d in proj.imports[m]:
      if d == m:
        continue
      if not final and d in scc[m]:
        continue
      val = maps[k].get(proj.key[d])
      if val is None:
        bad.append("step %d (%s): module %s imports %s but its imports map has no entry %r"
                   % (k, st.outs[0], proj.key[m], proj.key[d], proj.key[d]))
      elif val not in producer or mod_of[producer[val]] != d:
        bad.append("step %d (%s): entry %s -> %r is not a stub produced from %s"
                   % (k, st.outs[0], proj.key[d], val, proj.src[d]))
    if proj.kinds[m] == "S" and maps[k].get("os") != default_pyi:
      bad.append("step %d (%s): System module os is mapped to %r, not the default stub"
                 % (k, st.outs[0], maps[k].get("os")))

  # ---- all schedules
  needs = [set(producer[d] for d in st.ins + st.implicit + st.order if d in producer) for st in steps]
  reads = [{v: producer[v] for v in maps[k].values() if v in producer} for k in range(len(steps))]
  names = [st.outs[0][len(outdir) + 1:] for st in steps]
  coll = _Collect()
  nstates, ntrans, levels = explore.bfs(Sched(needs, reads, names), [()], len(steps), coll, procs=1,
                                        label="plan")
  stats["states"] += nstates
  stats["transitions"] += ntrans
  stats["max_states_one_plan"] = max(stats["max_states_one_plan"], nstates)
  if coll.v:
    bad.append(coll.v[0])
  if len(levels) != len(steps) + 1 or levels[-1] != 1:
    bad.append("the plan cannot be completed: schedules dead-lock after %d of %d steps "
               "(cyclic declared dependencies)" % (len(levels) - 1 - (levels[-1] == 0), len(steps)))

  # ---- classification for the coverage report
  two_pass = any(len(v) > 1 for v in steps_of.values())
  anyread = any(reads)
  skipped = any(len(scc[m]) > 1 and len(steps_of[m]) < 2 for m in reach)
  stats["cls:" + ("two-pass(cycle)" if two_pass else "single-pass")
        + ("+default-stub" if any(default_pyi in mp.values() for mp in maps) else "")
        + ("+second-pass-skipped-after-last-request" if skipped else "")] += 1
  if len(steps) >= 2 and anyread:
    stats["nontrivial"] += 1
  return bad, plan


# --------------------------------------------------------------------------- conformance with the real ninja


def _esc(p):
  return re.sub(r"([ :$\n])", r"$\1", p)


def _run_ninja(w, args, cwd):
  r = subprocess.run([w["ninja"]] + args, cwd=cwd, capture_output=True, text=True)
  return r.returncode, r.stdout, r.stderr


def ninja_view(w, scratch, files, outputs):
  """The real ninja's view of the union of the given build.ninja files.

  Returns (query {out: [rule, explicit, implicit, orderonly, dependents]}, Counter of the command lines of
  all edges) or raises NinjaError with ninja's message.
  """
  w["seq"] += 1
  if len(files) == 1:
    top = files[0]
  else:
    top = os.path.join(scratch, "top%d.ninja" % w["seq"])
    with open(top, "w") as f:
      for p in files:
        f.write("subninja %s\n" % _esc(p))
  query = {}
  if outputs:
    rc, out, err = _run_ninja(w, ["-f", top, "-t", "query"] + list(outputs), scratch)
    if rc:
      raise NinjaError((err or out).strip().split("\n")[0])
    cur = None
    sect = None
    for line in out.split("\n"):
      if not line:
        continue
      if not line.startswith(" "):
        cur = [None, [], [], [], []]
        query[line[:-1]] = cur
        sect = None
      elif line.startswith("  input: "):
        cur[0] = line[len("  input: "):]
        sect = "in"
      elif line == "  outputs:":
        sect = "out"
      elif line == "  validations:":
        sect = "val"
      elif line.startswith("    "):
        x = line[4:]
        if sect == "in":
          if x.startswith("|| "):
            cur[3].append(x[3:])
          elif x.startswith("| "):
            cur[2].append(x[2:])
          else:
            cur[1].append(x)
        elif sect == "out":
          cur[4].append(x)
      else:
        raise NinjaError("unrecognised -t query line %r" % line)
  rc, out, err = _run_ninja(w, ["-f", top, "-t", "commands"], scratch)
  if rc:
    raise NinjaError((err or out).strip().split("\n")[0])
  commands = collections.Counter(l for l in out.split("\n") if l)
  return query, commands


def conformance(w, scratch, batch, budget):
  """batch: list of (ident, build.ninja path, Plan); budget: [remaining ninja loads].

  Returns ({ident: [mismatch]}, number of plans validated, number of plans left unvalidated because the
  budget for attributing a load failure to individual plans ran out).
  """
  res = collections.defaultdict(list)
  live = list(batch)
  view = None
  while live:
    if budget[0] <= 0:
      return res, 0, len(live)
    budget[0] -= 1
    try:
      view = ninja_view(w, scratch, [b[1] for b in live],
                        [o for b in live for st in b[2].steps for o in st.outs])
      break
    except NinjaError as e:
      msg = str(e)
      # ninja names the file (parse errors) or the outputs (dependency cycles): both contain the plan's directory
      cul = live if len(live) == 1 else [b for b in live if (os.path.dirname(b[1]) + os.sep) in msg]
      if len(cul) == 1:
        res[cul[0][0]].append("the real ninja rejects the plan: %s" % msg)
        live = [b for b in live if b is not cul[0]]
        continue
      h = len(live) // 2
      ok = un = 0
      for part in (live[:h], live[h:]):
        r, n, u = conformance(w, scratch, part, budget)
        ok += n
        un += u
        for k, v in r.items():
          res[k].extend(v)
      return res, ok, un
  if not live:
    return res, 0, 0
  batch = live
  query, commands = view
  m_cmds = collections.Counter()
  dependents = collections.defaultdict(set)
  for ident, _, plan in batch:
    for st in plan.steps:
      m_cmds[plan.command(st)] += 1
      for d in st.ins + st.implicit + st.order:
        dependents[d].update(st.outs + st.iouts)
  for ident, _, plan in batch:
    for st in plan.steps:
      q = query.get(st.outs[0])
      mine = [st.rule, st.ins, st.implicit, st.order, sorted(dependents.get(st.outs[0], ()))]
      if q is None:
        res[ident].append("ninja -t query does not know output %r" % st.outs[0])
        continue
      q = [q[0], q[1], q[2], q[3], sorted(q[4])]
      if q != mine:
        res[ident].append("ninja -t query %r = %s but the parsed plan says %s" % (st.outs[0], q, mine))
  if m_cmds != commands:
    for c in sorted((m_cmds - commands) + (commands - m_cmds)):
      ident = _owner_by_prefix(batch, c)
      if len(res[ident]) < 4:
        res[ident].append("ninja -t commands and the evaluated plan disagree on %r" % c)
  ok = sum(1 for b in batch if b[0] not in res)
  return res, ok, 0


def _owner_by_prefix(batch, text):
  for ident, path, _ in batch:
    if os.path.dirname(path) in text:
      return ident
  return batch[0][0]


# --------------------------------------------------------------------------- work items


def case_of(spec, request):
  n, edges, kinds, rs, os_ = spec[:5]
  return {"n": n, "edges": [list(e) for e in edges], "kinds": kinds, "root": rs, "out": os_,
          "request": list(request)}     # request = the files asked for, in the order they are handed over


def _scrub(msg, scratch):
  return msg.replace(scratch, "<T>")


def work(job):
  """job = (scratch base, check-with-ninja?, [spec...]).  All request subsets of every spec."""
  base, with_ninja, specs = job
  w = _worker_init(base)
  scratch = tempfile.mkdtemp(prefix="job", dir=base)
  stats = collections.Counter()
  viol = []
  try:
    batch = []
    pending = {}
    for si, spec in enumerate(specs):
      pdir = os.path.join(scratch, "p%d" % si)
      proj = Project(pdir, spec)
      stats["projects"] += 1
      for ri, request in enumerate(requests(proj.n, spec[5])):
        outdir = os.path.join(pdir, "o%d" % ri, proj.outname)
        bad, plan = check_plan(w, proj, request, outdir, stats)
        stats["plans"] += 1
        ident = (si, request)
        if bad:
          pending[ident] = [_scrub(b, pdir) for b in bad]
        if plan is not None and with_ninja and not bad:
          batch.append((ident, os.path.join(outdir, "build.ninja"), plan))
    if with_ninja:
      res, ok, un = conformance(w, scratch, batch, [12])
      stats["ninja_validated"] += ok
      stats["ninja_unattributed"] += un
      stats["ninja_batches"] += 1
      for ident, msgs in res.items():
        pending.setdefault(ident, []).extend(_scrub(m, scratch) for m in msgs)
    for (si, request), msgs in sorted(pending.items()):
      stats["violating_plans"] += 1
      if len(viol) < 20:
        viol.append((case_of(specs[si], request), msgs[:4]))
  finally:
    shutil.rmtree(scratch, ignore_errors=True)
  return dict(stats), viol


def check_case(case, base):
  """One plan, in this process, with the ninja cross-check.  Returns list of messages."""
  w = _worker_init(base)
  scratch = tempfile.mkdtemp(prefix="one", dir=base)
  spec = (case["n"], tuple(tuple(e) for e in case["edges"]), case["kinds"], case["root"], case["out"], "asc")
  request = tuple(case["request"])
  stats = collections.Counter()
  pdir = os.path.join(scratch, "p0")
  proj = Project(pdir, spec)
  outdir = os.path.join(pdir, "o0", proj.outname)
  bad, plan = check_plan(w, proj, request, outdir, stats)
  bad = [_scrub(b, pdir) for b in bad]
  if plan is not None:
    res, _, _ = conformance(w, scratch, [("x", os.path.join(outdir, "build.ninja"), plan)], [2])
    bad += [_scrub(m, scratch) for m in res.get("x", [])]
  return bad, stats, plan, outdir


# --------------------------------------------------------------------------- entry points

PLANS_PER_JOB = {"quick": 200, "thorough": 240}   # two ninja processes per job
NINJA_STRIDE = {"quick": 1, "thorough": 1}


def make_jobs(base, specs, tier):
  jobs, cur, cnt = [], [], 0
  target = PLANS_PER_JOB[tier]
  for sp in specs:
    cur.append(sp)
    cnt += n_requests(sp[0], sp[5])
    if cnt >= target:
      jobs.append(cur)
      cur, cnt = [], 0
  if cur:
    jobs.append(cur)
  stride = NINJA_STRIDE[tier]
  return [(base, k % stride == 0, j) for k, j in enumerate(jobs)]


def scratch_base(prefix):
  """A fresh scratch directory from tempfile.mkdtemp(); on tmpfs when there is one (the check creates and
  removes ~10^5 small directories and rmdir on the sandbox's ext4 /tmp costs milliseconds)."""
  for d in ("/dev/shm", None):
    try:
      if d is None or (os.path.isdir(d) and os.access(d, os.W_OK)):
        return tempfile.mkdtemp(prefix=prefix, dir=d)
    except OSError:
      continue
  return tempfile.mkdtemp(prefix=prefix)


def run(rep, tier, seed):
  specs, fam = specs_for(tier)
  base = scratch_base("vk_c19_")
  tot = collections.Counter()
  old_tmp = tempfile.tempdir
  try:
    _worker_init(base)    # imports, arg parser and typeshed once; forked workers inherit them
    stride = NINJA_STRIDE[tier]
    jobs = make_jobs(base, specs, tier)
    # importlab leaks descriptors per environment: workers are recycled every 8 jobs
    for job, (stats, viol) in vrun.pmap(work, jobs, seed=seed, chunksize=1, maxtasks=8):
      for k, v in stats.items():
        if k == "max_states_one_plan":
          tot[k] = max(tot[k], v)
        else:
          tot[k] += v
      for case, msgs in viol:
        rep.violation(vrun.jkey(case), msgs[0], dict(case, all=msgs))
    # two verbatim samples, regenerated here
    for case in ({"n": 3, "edges": [[0, 1], [1, 0], [2, 0]], "kinds": "LPS", "root": "all", "out": "all",
                  "request": [2]},
                 {"n": 2, "edges": [[0, 1]], "kinds": "LL", "root": "space", "out": "dollar",
                  "request": [1, 0]}):
      bad, st, plan, outdir = check_case(case, base)
      if plan is not None:
        with open(os.path.join(outdir, "build.ninja")) as f:
          text = [l for l in f.read().split("\n") if l.startswith("build ")]
        rep.sample({"case": case, "build_lines": [_scrub(l, _esc(os.path.dirname(os.path.dirname(outdir)))) for l in text],
                    "schedule_states": st["states"], "transitions": st["transitions"], "violations": bad})
  finally:
    tempfile.tempdir = old_tmp
    shutil.rmtree(base, ignore_errors=True)
  rep.evaluations = tot["plans"]
  rep.nontrivial_extra = tot["nontrivial"]
  for k, v in sorted(tot.items()):
    if k.startswith("cls:"):
      rep.outcome(k[4:], v)
  if tot["ninja_unattributed"]:
    rep.cap("%d plans not cross-checked with ninja: a batch failed to load and the per-job budget for "
            "attributing the failure to single plans ran out" % tot["ninja_unattributed"])
  if tot["violating_plans"]:
    rep.outcome("violating_plans", tot["violating_plans"])
  rep.cov.update({
      "states": tot["states"], "transitions": tot["transitions"],
      "traces_validated_against_impl": tot["ninja_validated"],
      "plans": tot["plans"], "projects": tot["projects"], "build_steps": tot["steps"],
      "ninja_batches": tot["ninja_batches"], "max_states_one_plan": tot["max_states_one_plan"],
      "bounds": {"families (project specs each; every non-empty request subset per spec)": fam,
                 "kinds": KIND_DOC, "dir_schemes": DIRS,
                 "ninja_cross_check": "every plan" if stride == 1 else "every %d-th job" % stride},
  })
  rep.rule = ("plan = one (import digraph, kind vector, directory names, requested subset) driven through "
              "compute_pythonpath/create_importlab_environment/ImportGraph.create/deps_from_import_graph/"
              "PytypeRunner.setup_build; the written build.ninja + *.imports are parsed back, all invariants "
              "checked, all schedules explored (states = downsets of finished steps); non-trivial = plan with "
              ">=2 steps in which some step reads a stub produced by another step; validated = plan whose parsed "
              "graph and evaluated commands equal the real ninja's -t query (rule, explicit/implicit/order-only inputs, dependents of every output) and -t commands (every edge's evaluated command line) output")
  rep.assumptions += [
      "the model of the build tool is ninja's documented semantics: a step may start once all its declared "
      "explicit/implicit/order-only inputs that are outputs of other steps are finished; conformance of the "
      "parsed graph with the real ninja binary is checked on the plans counted in traces_validated_against_impl "
      "(several plans are loaded per ninja process through a generated top-level file of subninja lines)",
      "a step 'reads' exactly the stubs named in its imports file (pytype-single resolves imports only through it)",
      "the imports-map key of a module is its path below the project root without extension",
      "CLI/config parsing (space-separated inputs, ':'-separated pythonpath) is bypassed: the Config object is "
      "populated directly, pythonpath via tools.environment.compute_pythonpath as main.py does by default; "
      "conf.inputs is an ordered list (main.py: a set, whose iteration order is arbitrary) so that runs are "
      "reproducible - orders covered: see bounds",
      "the property is checked at the level of the plan (paths and variable values as ninja evaluates them); how "
      "/bin/sh later tokenises a command line is not: ninja quotes $in and $out, but the rule expands "
      "`--imports_info $imports` unquoted, so an output directory containing a space or '$' reaches pytype-single "
      "split/expanded (visible in ninja -t commands; reported separately, not alarmed on)",
      "directory names contain space, ':' and '$' (also adjacent); '|', '#', newline, quotes and module file "
      "names that are not identifiers are outside the bound; graphs beyond the stated sizes are not covered",
  ]


def replay(case):
  boot.load()
  base = scratch_base("vk_c19_replay_")
  old_tmp = tempfile.tempdir
  try:
    c = {k: case[k] for k in ("n", "edges", "kinds", "root", "out", "request")}
    bad, _, _, _ = check_case(c, base)
  finally:
    tempfile.tempdir = old_tmp
    shutil.rmtree(base, ignore_errors=True)
  return [{"key": vrun.jkey(c), "summary": bad[0]}] if bad else []
