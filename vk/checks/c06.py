"""C06: a module seen through its emitted stub has the types inferred for it.

Every upstream program A is analysed; a downstream module B re-exports each
public name of A (variables, classes, attributes and method results of A's
classes, results of functions callable without arguments).  B is analysed with
A's stub supplied (1) as a.pyi on the python path, (2) through an imports map,
(3) as a pickled AST.  The types in B's stub must equal those A's stub declares.
"""

import ast as pyast
import os
import shutil
import tempfile

from vk import admits as adm, boot, progspace, pt, run as vrun
from vk.checks import c05

ID = "C06"
LEVEL = "exploration"

_SPECIAL_BASES = {"Enum", "IntEnum", "Flag", "IntFlag", "StrEnum", "OrderedDict", "defaultdict", "NamedTuple", "Protocol", "TypedDict", "ABC", "tuple", "Generic"}
BAD_ERRORS = ("import-error", "pyi-error", "module-attr")


def downstream(stub):
  """Builds module B from A's stub (read with CPython's ast).  Returns (src, expectations).

  expectations: name in B -> type term expected (from A's declarations).
  """
  lines = ["import a"]
  exp = {}
  tv = stub.typevars
  for n, ann in stub.consts.items():
    if n.startswith("_"):
      continue
    lines.append("v_%s = a.%s" % (n, n))
    exp["v_" + n] = adm.from_ast(ann, tv)
  for cname, ci in stub.classes.items():
    if cname.startswith("_"):
      continue
    lines.append("k_%s = a.%s" % (cname, cname))
    exp["k_" + cname] = ("type", ("cls", cname))
    init = ci.funcs.get("__init__")
    if any(pyast.unparse(b).split("[")[0].split(".")[-1] in _SPECIAL_BASES for b in ci.bases) or ci.node.keywords:
      continue   # enums, named tuples, protocols, metaclasses: not instantiable without arguments / special semantics
    # instantiate only when the constructor needs no arguments
    if init is None or _callable_without_args(init[0], skip_self=True):
      if init is None and any(pyast.unparse(b) not in ("object",) and _base_needs_args(stub, b) for b in ci.bases):
        continue
      for attr, ann in ci.consts.items():
        if attr.startswith("_"):
          continue
        lines.append("a_%s_%s = a.%s().%s" % (cname, attr, cname, attr))
        exp["a_%s_%s" % (cname, attr)] = adm.from_ast(ann, tv)
      for m, defs in ci.funcs.items():
        if m.startswith("_") or len(defs) != 1:
          continue
        d = defs[0]
        if any(pyast.unparse(x).split(".")[-1] in ("staticmethod", "classmethod", "property") for x in d.decorator_list):
          continue
        if _callable_without_args(d, skip_self=True) and not _mentions_typevar(d.returns, tv):
          lines.append("m_%s_%s = a.%s().%s()" % (cname, m, cname, m))
          exp["m_%s_%s" % (cname, m)] = adm.from_ast(d.returns, tv)
  for f, defs in stub.funcs.items():
    if f.startswith("_") or len(defs) != 1:
      continue
    d = defs[0]
    if (_callable_without_args(d, skip_self=False) and not _mentions_typevar(d.returns, tv) and not _enum_literal(d.returns)
        and not isinstance(d, pyast.AsyncFunctionDef)):
      lines.append("r_%s = a.%s()" % (f, f))
      exp["r_" + f] = adm.from_ast(d.returns, tv)
  return "\n".join(lines) + "\n", exp


def replay_lines(src, stub):
  """Module-level `t = <expr reading A's definitions>` statements of A, rewritten for B.

  Returns [(name in B, statement for B, name in A)].  Only targets assigned exactly once at module
  level and typed in A's stub are used; `input` (opaque conditions) is not replayed.
  """
  tree = pyast.parse(src)
  defined, assigned = set(), {}
  for st in tree.body:
    if isinstance(st, (pyast.FunctionDef, pyast.AsyncFunctionDef, pyast.ClassDef)):
      defined.add(st.name)
    elif isinstance(st, (pyast.Import, pyast.ImportFrom)):
      pass   # B does not see A's imports as A's names
    for n in pyast.walk(st) if not isinstance(st, (pyast.FunctionDef, pyast.AsyncFunctionDef, pyast.ClassDef)) else ():
      if isinstance(n, pyast.Name) and isinstance(n.ctx, (pyast.Store, pyast.Del)):
        assigned[n.id] = assigned.get(n.id, 0) + 1
  defined |= set(assigned)
  out = []
  for st in tree.body:
    if not (isinstance(st, pyast.Assign) and len(st.targets) == 1 and isinstance(st.targets[0], pyast.Name)):
      continue
    t = st.targets[0].id
    if assigned.get(t) != 1 or t.startswith("_") or t not in stub.consts:
      continue
    names = {n.id for n in pyast.walk(st.value) if isinstance(n, pyast.Name)}
    if not (names & defined) or "input" in names or t in names:
      continue
    if any(n.startswith("_") for n in names & defined):
      continue
    if any(isinstance(n, (pyast.Lambda, pyast.NamedExpr, pyast.ListComp, pyast.DictComp, pyast.SetComp, pyast.GeneratorExp,
                          pyast.BoolOp, pyast.IfExp, pyast.UnaryOp, pyast.Compare, pyast.BinOp))
           for n in pyast.walk(st.value)):
      continue   # only reads of A (names, attributes, calls, subscripts, displays): operators are B's own computation

    class Q(pyast.NodeTransformer):
      def visit_Name(self, node):
        if node.id in defined and isinstance(node.ctx, pyast.Load):
          return pyast.Attribute(value=pyast.Name(id="a", ctx=pyast.Load()), attr=node.id, ctx=pyast.Load())
        return node
    import copy
    expr = pyast.unparse(Q().visit(copy.deepcopy(st.value)))
    out.append(("w_" + t, "w_%s = %s" % (t, expr), t))
  return out


def _covers(b, a):
  """Whether type term b (seen downstream) is at least as wide as a (inferred upstream); both _norm'ed."""
  if b[0] == "any" or a == b:
    return True
  if a[0] == "union":
    return all(_covers(b, m) for m in a[1])
  if b[0] == "union":
    return any(_covers(m, a) for m in b[1])
  if a[0] == "any":
    return True      # A gave up on this expression; B recomputes it from A's declarations and may know more
  if a[0] == b[0] == "gen":
    return a[1] == b[1] and len(a[2]) == len(b[2]) and all(_covers(y, x) for x, y in zip(a[2], b[2]))
  if a[0] == b[0] == "tuple":
    return len(a[1]) == len(b[1]) and all(_covers(y, x) for x, y in zip(a[1], b[1]))
  if a[0] == "tuple" and b[0] == "vtuple":
    return all(_covers(b[1], x) for x in a[1])
  if a[0] == b[0] and a[0] in ("vtuple", "type"):
    return _covers(b[1], a[1])
  if a[0] == "gen" and b[0] == "cls":
    return a[1] == b[1]      # bare generic downstream = parameters Any
  if a[0] == "cls" and b[0] == "gen":
    return a[1] == b[1]      # bare generic upstream (A gave up on the parameters): B may know more
  if a[0] in ("tuple", "vtuple") and b == ("cls", "tuple"):
    return True
  if a[0] == "cls" and b[0] == "cls":
    return (a[1], b[1]) in (("int", "float"), ("int", "complex"), ("float", "complex"), ("bool", "int")) or b[1] == "object"
  return False


def _base_needs_args(stub, b):
  ci = stub.classes.get(pyast.unparse(b))
  if ci is None:
    return False
  init = ci.funcs.get("__init__")
  if init is None:
    return any(_base_needs_args(stub, x) for x in ci.bases)
  return not _callable_without_args(init[0], skip_self=True)


def _callable_without_args(d, skip_self):
  a = d.args
  pos = a.posonlyargs + a.args
  if skip_self:
    pos = pos[1:]
  required = len(pos) - len(a.defaults)
  if required > 0:
    return False
  return all(x is not None for x in a.kw_defaults)


def _enum_literal(node):
  """Whether an annotation contains Literal[<attribute>] (an enum member): its values are not Python literals."""
  if node is None:
    return False
  for n in pyast.walk(node):
    if isinstance(n, pyast.Subscript) and pyast.unparse(n.value).split(".")[-1] == "Literal":
      if any(isinstance(x, pyast.Attribute) for x in pyast.walk(n.slice)):
        return True
  return False


def _mentions_typevar(node, tv):
  if node is None:
    return False
  return any(isinstance(n, pyast.Name) and n.id in tv for n in pyast.walk(node))


def _norm(term):
  """Order-insensitive, module-prefix-insensitive normal form."""
  k = term[0]
  if k == "cls":
    n = term[1]
    n = n[2:] if n.startswith("a.") else n
    # a stub names a class of another module through its own import table (`from vkpkg import sub` ->
    # `sub.K`, `import vkpkg.sub as s` -> `s.K`), the downstream stub by its full name: compare the
    # class name proper
    return ("cls", n.split(".")[-1] if "vkpkg" in n or n.split(".")[0] in ("sub", "s", "renamed") else n)
  if k == "union":
    ms = frozenset(_norm(x) for x in term[1])
    return next(iter(ms)) if len(ms) == 1 else ("union", ms)
  if k == "gen":
    n = term[1]
    return ("gen", n[2:] if n.startswith("a.") else n, tuple(_norm(x) for x in term[2]))
  if k == "tuple":
    return ("tuple", tuple(_norm(x) for x in term[1]))
  if k in ("vtuple", "type"):
    return (k, _norm(term[1]))
  if k == "literal":
    # pytype never *infers* a Literal for a plain assignment (B's `v = a.x`): a
    # Literal declared upstream is compared as its base type
    return ("none",) if term[1] is None else ("cls", type(term[1]).__name__)
  if k == "type" and False:
    return term
  return term


# Helper packages that upstream programs import in every form.  vkpkg's __init__ does NOT bind its
# submodule, vkpkg2's does; both are delivered to every analysis next to a's stub.
HELPER_STUBS = {
    "vkpkg/__init__": "v: int\n",
    "vkpkg/sub": "class K:\n    z: str\ndef mk() -> K: ...\nW: int\n",
    "vkpkg2/__init__": "from . import sub as sub\nv: int\n",
    "vkpkg2/sub": "class K:\n    z: str\ndef mk() -> K: ...\nW: int\n",
}
IMPORT_FORMS = [
    "from {P} import sub\nk0 = sub.K()\nm0 = sub\nr0 = sub.mk().z\n",
    "import {P}.sub\nk0 = {P}.sub.K()\nr0 = {P}.sub.mk()\n",
    "from {P}.sub import K as Kx, mk\nk0 = Kx()\nr0 = mk()\nt0 = Kx\n",
    "import {P}.sub as s\nk0 = s.K()\nm0 = s\nw0 = s.W\n",
    "import {P}\nv0 = {P}.v\n",
    "from {P} import sub as renamed\nclass D(renamed.K):\n  pass\nd0 = D()\nz0 = D().z\n",
]


def import_programs():
  return [("imp:%s/%d" % (p, k), f.replace("{P}", p)) for p in ("vkpkg", "vkpkg2") for k, f in enumerate(IMPORT_FORMS)]


def _write_helpers(d):
  paths = {}
  for key, text in HELPER_STUBS.items():
    path = os.path.join(d, key + ".pyi")
    os.makedirs(os.path.dirname(path), exist_ok=True)
    with open(path, "w") as f:
      f.write(text)
    paths[key] = path
  return paths


def check_upstream(src, share):
  """Returns (violations, info)."""
  boot.load()
  from pytype import config, io, load_pytd
  from pytype import imports_map as imports_map_lib
  uses_helpers = "vkpkg" in src
  hd = None
  try:
    if uses_helpers:
      hd = tempfile.mkdtemp(prefix="vk_c06_up_")
      _write_helpers(hd)
      up = pt.analyze(src, module_name="a", pythonpath=hd)
    else:
      up = pt.analyze(src, share=share, module_name="a")
  except Exception as e:  # pylint: disable=broad-except
    return [], {"outcome": "upstream-analysis-exception"}
  finally:
    if hd:
      shutil.rmtree(hd, ignore_errors=True)
  if uses_helpers and any(n in BAD_ERRORS for n, _, _ in up.errors):
    return [], {"outcome": "upstream-import-errors"}
  stub = pt.Stub(up.pyi)
  bsrc, exp = downstream(stub)
  if uses_helpers:
    # module-valued names of A (the helper package or its submodule, under whatever name A imported
    # them) are read through A; what they contain is known from HELPER_STUBS
    for node in pyast.parse(src).body:
      if isinstance(node, (pyast.Import, pyast.ImportFrom)):
        for al in node.names:
          full = ("%s.%s" % (node.module, al.name)) if isinstance(node, pyast.ImportFrom) else al.name
          local = al.asname or (al.name if isinstance(node, pyast.ImportFrom) else al.name.split(".")[0])
          if isinstance(node, pyast.Import) and not al.asname:
            full = al.name.split(".")[0]
          path = None
          if full in ("vkpkg.sub", "vkpkg2.sub"):
            path = "a." + local
          elif full in ("vkpkg", "vkpkg2") and isinstance(node, pyast.Import) and "." in al.name and not al.asname:
            path = "a.%s.sub" % local
          if path:
            bsrc += "hw_%s = %s.W\nhz_%s = %s.K().z\nhm_%s = %s.mk()\n" % (local, path, local, path, local, path)
            exp["hw_" + local] = ("cls", "int")
            exp["hz_" + local] = ("cls", "str")
            exp["hm_" + local] = ("cls", "K")
          elif full in ("vkpkg", "vkpkg2"):
            bsrc += "hv_%s = a.%s.v\n" % (local, local)
            exp["hv_" + local] = ("cls", "int")
  uses = replay_lines(src, stub)
  bsrc += "".join(line + "\n" for _, line, _ in uses)
  if not exp and not uses:
    return [], {"outcome": "nothing-to-reexport"}
  d = tempfile.mkdtemp(prefix="vk_c06_")
  bad = []
  stubs = {}
  try:
    with open(os.path.join(d, "a.pyi"), "w") as f:
      f.write(up.pyi)
    # pickled stub, written the way pytype.io.write_pickle does
    popts = pt.options(module_name="a", output=os.path.join(d, "a.pickled"), input_filename="a.py")
    io.write_pickle(up.ast, popts, load_pytd.create_loader(popts))
    helpers = _write_helpers(d) if uses_helpers else {}
    configs = {
        "pythonpath": dict(pythonpath=d),
        "imports_map": dict(pythonpath="", _imap=dict(helpers, a=os.path.join(d, "a.pyi"))),
        "pickled": dict(pythonpath="", use_pickled_files=True, _imap=dict(helpers, a=os.path.join(d, "a.pickled"))),
    }
    for cname, kw in configs.items():
      imap = kw.pop("_imap", None)
      o = pt.options(module_name="b", **kw)
      if imap:
        o.imports_map = imports_map_lib.ImportsMap(items=imap)
      try:
        r = pt.analyze(bsrc, opts=o, loader=load_pytd.create_loader(o))
      except Exception as e:  # pylint: disable=broad-except
        bad.append("[%s] analysing the downstream module raised %s: %s" % (cname, type(e).__name__, str(e).split("\n")[0][:120]))
        continue
      for n, line, msg in r.errors:
        if n in BAD_ERRORS:
          bad.append("[%s] spurious [%s] on `%s`: %s" % (cname, n, bsrc.split("\n")[line - 1] if line else "?", msg[:120]))
      bstub = pt.Stub(r.pyi)
      stubs[cname] = r.pyi
      for name, want in exp.items():
        ann = bstub.consts.get(name)
        if ann is None and name in bstub.aliases:
          # `n = T` in a stub declares n as (an alias of) the type T, i.e. a value of type[T]
          got = ("type", adm.from_ast(bstub.aliases[name], bstub.typevars))
          if _norm(got) != _norm(want):
            bad.append("[%s] %s: upstream stub declares %s, downstream has the alias %s = %s" % (
                cname, name, _show(want), name, pyast.unparse(bstub.aliases[name])))
          continue
        if ann is None:
          if name.startswith("k_") and name in bstub.classes:
            continue
          bad.append("[%s] %s is %s the downstream stub" % (
              cname, name, "not a typed constant in" if name in bstub.funcs or name in bstub.classes else "missing from"))
          continue
        got = adm.from_ast(ann, bstub.typevars)
        if _norm(got) != _norm(want):
          bad.append("[%s] %s: upstream stub declares %s, downstream sees %s" % (
              cname, bsrc.split("\n")[[l.split(" = ")[0] for l in bsrc.split("\n")].index(name)],
              _show(want), pyast.unparse(ann)))
      # expressions of A replayed in B through the stub: B must see a type at least as wide as the
      # one A inferred for the same expression (the stub is a summary: it may widen, never differ)
      for wname, line, uname in uses:
        ann = bstub.consts.get(wname)
        if ann is None:
          if wname in bstub.aliases or wname in bstub.classes or wname in bstub.funcs:
            continue
          bad.append("[%s] `%s`: %s is missing from the downstream stub" % (cname, line, wname))
          continue
        got = _norm(adm.from_ast(ann, bstub.typevars))
        want = _norm(adm.from_ast(stub.consts[uname], stub.typevars))
        if not _covers(got, want):
          bad.append("[%s] `%s`: upstream inferred %s for the same expression, downstream sees %s" % (
              cname, line, pyast.unparse(stub.consts[uname]), pyast.unparse(ann)))
    if len(set(stubs.values())) > 1:
      names = list(stubs)
      for x in names[1:]:
        if stubs[x] != stubs[names[0]]:
          bad.append("downstream stub differs between %s and %s: %s" % (names[0], x, c05._diff(stubs[names[0]], stubs[x])))
          break
  finally:
    shutil.rmtree(d, ignore_errors=True)
  return bad, {"outcome": "reexports" + ("+replayed-expressions" if uses else ""), "n": len(exp) + len(uses)}


def _show(term):
  return repr(_norm(term)).replace("frozenset", "")[:120]


SHARE = False


def work(item):
  i, src = item
  bad, info = check_upstream(src, SHARE)
  if bad and SHARE:
    bad, info = check_upstream(src, False)
  return bad[:5], info


def programs(tier):
  from vk import defspace
  ps = [(progspace.pid(s), s) for s in c05.DEFS]
  ps += import_programs()
  ps += [(i, s) for i, s in defspace.programs("quick")
         if tier != "quick" or i.startswith(("alone:", "cls:", "flow:assign<-", "flow:initattr<-", "flow:outside<-", "flow:default<-"))]
  if tier != "quick":
    have = {i for i, _ in ps}
    ps += [(i, s) for i, s in defspace.class_shapes("thorough") if i not in have][::2]
  if tier == "quick":
    ps += [(i, src) for i, src, _ in progspace.programs("smoke")]
    ps += [(i, src) for i, src, _ in progspace.programs("quick")[100::25]]
  else:
    ps += [(i, src) for i, src, _ in progspace.programs("quick")[::12]]   # every twelfth PS-core program (4 analyses each)
  return ps


def run(rep, tier, seed):
  global SHARE
  SHARE = tier == "quick"
  progs = programs(tier)
  seen = set()
  for (i, src), (bad, info) in vrun.pmap(work, progs, seed=seed, maxtasks=300, progress=500):
    rep.evaluations += info.get("n", 0) * 3
    rep.outcome(info["outcome"])
    if info.get("n"):
      rep.nontrivial.add(i)
    for b in bad:
      # key on the message without the configuration tag so one cause is one finding
      key = vrun.sha(i + "|" + b.split("] ", 1)[-1])
      if key not in seen:
        seen.add(key)
        rep.violation(key, b, {"src": src, "message": b})
  rep.sample({"downstream_of_prelude": downstream(pt.Stub(pt.analyze(progspace.program(["x = 1"]), module_name="a").pyi))[0][:600]})
  rep.cov.update({"upstream_programs": len(progs), "configurations": ["pythonpath", "imports_map", "pickled"]})
  rep.rule = ("upstream program x re-exported name x configuration; expectation = the type A's stub declares (read with "
              "CPython's ast), compared order-insensitively after stripping the 'a.' qualifier; non-trivial = upstream "
              "programs with at least one re-exported name")
  rep.assumptions += ["functions/methods are probed only when callable without arguments and their declared return type has no TypeVar"]


def replay(case):
  bad, _ = check_upstream(case["src"], False)
  want = case["message"].split("] ", 1)[-1]
  i = progspace.pid(case["src"])
  return [{"key": vrun.sha(i + "|" + want), "summary": b} for b in bad if b.split("] ", 1)[-1] == want][:1]
