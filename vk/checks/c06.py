"""C06: a module seen through its emitted stub has the types inferred for it.

Every upstream program A is analysed; a downstream module B re-exports each
public name of A (variables, classes, attributes and method results of A's
classes, results of functions callable without arguments).  B is analysed with
A's stub supplied (1) as a.pyi on the python path, (2) through an imports map,
(3) as a pickled AST.  The types in B's stub must equal those A's stub declares.
"""

import ast as pyast
import os
import shutil
import tempfile

from vk import admits as adm, boot, progspace, pt, run as vrun
from vk.checks import c05

ID = "C06"
LEVEL = "exploration"

_SPECIAL_BASES = {"Enum", "IntEnum", "Flag", "NamedTuple", "Protocol", "TypedDict", "ABC", "tuple", "Generic"}
BAD_ERRORS = ("import-error", "pyi-error", "module-attr")


def downstream(stub):
  """Builds module B from A's stub (read with CPython's ast).  Returns (src, expectations).

  expectations: name in B -> type term expected (from A's declarations).
  """
  lines = ["import a"]
  exp = {}
  tv = stub.typevars
  for n, ann in stub.consts.items():
    if n.startswith("_"):
      continue
    lines.append("v_%s = a.%s" % (n, n))
    exp["v_" + n] = adm.from_ast(ann, tv)
  for cname, ci in stub.classes.items():
    if cname.startswith("_"):
      continue
    lines.append("k_%s = a.%s" % (cname, cname))
    exp["k_" + cname] = ("type", ("cls", cname))
    init = ci.funcs.get("__init__")
    if any(pyast.unparse(b).split("[")[0].split(".")[-1] in _SPECIAL_BASES for b in ci.bases) or ci.node.keywords:
      continue   # enums, named tuples, protocols, metaclasses: not instantiable without arguments / special semantics
    # instantiate only when the constructor needs no arguments
    if init is None or _callable_without_args(init[0], skip_self=True):
      if init is None and any(pyast.unparse(b) not in ("object",) and _base_needs_args(stub, b) for b in ci.bases):
        continue
      for attr, ann in ci.consts.items():
        if attr.startswith("_"):
          continue
        lines.append("a_%s_%s = a.%s().%s" % (cname, attr, cname, attr))
        exp["a_%s_%s" % (cname, attr)] = adm.from_ast(ann, tv)
      for m, defs in ci.funcs.items():
        if m.startswith("_") or len(defs) != 1:
          continue
        d = defs[0]
        if any(pyast.unparse(x).split(".")[-1] in ("staticmethod", "classmethod", "property") for x in d.decorator_list):
          continue
        if _callable_without_args(d, skip_self=True) and not _mentions_typevar(d.returns, tv):
          lines.append("m_%s_%s = a.%s().%s()" % (cname, m, cname, m))
          exp["m_%s_%s" % (cname, m)] = adm.from_ast(d.returns, tv)
  for f, defs in stub.funcs.items():
    if f.startswith("_") or len(defs) != 1:
      continue
    d = defs[0]
    if _callable_without_args(d, skip_self=False) and not _mentions_typevar(d.returns, tv) and not isinstance(d, pyast.AsyncFunctionDef):
      lines.append("r_%s = a.%s()" % (f, f))
      exp["r_" + f] = adm.from_ast(d.returns, tv)
  return "\n".join(lines) + "\n", exp


def _base_needs_args(stub, b):
  ci = stub.classes.get(pyast.unparse(b))
  if ci is None:
    return False
  init = ci.funcs.get("__init__")
  if init is None:
    return any(_base_needs_args(stub, x) for x in ci.bases)
  return not _callable_without_args(init[0], skip_self=True)


def _callable_without_args(d, skip_self):
  a = d.args
  pos = a.posonlyargs + a.args
  if skip_self:
    pos = pos[1:]
  required = len(pos) - len(a.defaults)
  if required > 0:
    return False
  return all(x is not None for x in a.kw_defaults)


def _mentions_typevar(node, tv):
  if node is None:
    return False
  return any(isinstance(n, pyast.Name) and n.id in tv for n in pyast.walk(node))


def _norm(term):
  """Order-insensitive, module-prefix-insensitive normal form."""
  k = term[0]
  if k == "cls":
    n = term[1]
    return ("cls", n[2:] if n.startswith("a.") else n)
  if k == "union":
    ms = frozenset(_norm(x) for x in term[1])
    return next(iter(ms)) if len(ms) == 1 else ("union", ms)
  if k == "gen":
    n = term[1]
    return ("gen", n[2:] if n.startswith("a.") else n, tuple(_norm(x) for x in term[2]))
  if k == "tuple":
    return ("tuple", tuple(_norm(x) for x in term[1]))
  if k in ("vtuple", "type"):
    return (k, _norm(term[1]))
  if k == "literal":
    # pytype never *infers* a Literal for a plain assignment (B's `v = a.x`): a
    # Literal declared upstream is compared as its base type
    return ("none",) if term[1] is None else ("cls", type(term[1]).__name__)
  if k == "type" and False:
    return term
  return term


def check_upstream(src, share):
  """Returns (violations, info)."""
  boot.load()
  from pytype import config, io, load_pytd
  from pytype import imports_map as imports_map_lib
  try:
    up = pt.analyze(src, share=share, module_name="a")
  except Exception as e:  # pylint: disable=broad-except
    return [], {"outcome": "upstream-analysis-exception"}
  stub = pt.Stub(up.pyi)
  bsrc, exp = downstream(stub)
  if not exp:
    return [], {"outcome": "nothing-to-reexport"}
  d = tempfile.mkdtemp(prefix="vk_c06_")
  bad = []
  stubs = {}
  try:
    with open(os.path.join(d, "a.pyi"), "w") as f:
      f.write(up.pyi)
    # pickled stub, written the way pytype.io.write_pickle does
    popts = pt.options(module_name="a", output=os.path.join(d, "a.pickled"), input_filename="a.py")
    io.write_pickle(up.ast, popts, load_pytd.create_loader(popts))
    configs = {
        "pythonpath": dict(pythonpath=d),
        "imports_map": dict(pythonpath="", _imap={"a": os.path.join(d, "a.pyi")}),
        "pickled": dict(pythonpath="", use_pickled_files=True, _imap={"a": os.path.join(d, "a.pickled")}),
    }
    for cname, kw in configs.items():
      imap = kw.pop("_imap", None)
      o = pt.options(module_name="b", **kw)
      if imap:
        o.imports_map = imports_map_lib.ImportsMap(items=imap)
      try:
        r = pt.analyze(bsrc, opts=o, loader=load_pytd.create_loader(o))
      except Exception as e:  # pylint: disable=broad-except
        bad.append("[%s] analysing the downstream module raised %s: %s" % (cname, type(e).__name__, str(e).split("\n")[0][:120]))
        continue
      for n, line, msg in r.errors:
        if n in BAD_ERRORS:
          bad.append("[%s] spurious [%s] on `%s`: %s" % (cname, n, bsrc.split("\n")[line - 1] if line else "?", msg[:120]))
      bstub = pt.Stub(r.pyi)
      stubs[cname] = r.pyi
      for name, want in exp.items():
        ann = bstub.consts.get(name)
        if ann is None and name in bstub.aliases:
          # `n = T` in a stub declares n as (an alias of) the type T, i.e. a value of type[T]
          got = ("type", adm.from_ast(bstub.aliases[name], bstub.typevars))
          if _norm(got) != _norm(want):
            bad.append("[%s] %s: upstream stub declares %s, downstream has the alias %s = %s" % (
                cname, name, _show(want), name, pyast.unparse(bstub.aliases[name])))
          continue
        if ann is None:
          if name.startswith("k_") and name in bstub.classes:
            continue
          bad.append("[%s] %s is %s the downstream stub" % (
              cname, name, "not a typed constant in" if name in bstub.funcs or name in bstub.classes else "missing from"))
          continue
        got = adm.from_ast(ann, bstub.typevars)
        if _norm(got) != _norm(want):
          bad.append("[%s] %s: upstream stub declares %s, downstream sees %s" % (
              cname, bsrc.split("\n")[[l.split(" = ")[0] for l in bsrc.split("\n")].index(name)],
              _show(want), pyast.unparse(ann)))
    if len(set(stubs.values())) > 1:
      names = list(stubs)
      for x in names[1:]:
        if stubs[x] != stubs[names[0]]:
          bad.append("downstream stub differs between %s and %s: %s" % (names[0], x, c05._diff(stubs[names[0]], stubs[x])))
          break
  finally:
    shutil.rmtree(d, ignore_errors=True)
  return bad, {"outcome": "reexports", "n": len(exp)}


def _show(term):
  return repr(_norm(term)).replace("frozenset", "")[:120]


SHARE = False


def work(item):
  i, src = item
  bad, info = check_upstream(src, SHARE)
  if bad and SHARE:
    bad, info = check_upstream(src, False)
  return bad[:5], info


def programs(tier):
  ps = [(progspace.pid(s), s) for s in c05.DEFS]
  if tier == "quick":
    ps += [(i, src) for i, src, _ in progspace.programs("smoke")]
    ps += [(i, src) for i, src, _ in progspace.programs("quick")[100::25]]
  else:
    ps += [(i, src) for i, src, _ in progspace.programs("quick")]
  return ps


def run(rep, tier, seed):
  global SHARE
  SHARE = tier == "quick"
  progs = programs(tier)
  seen = set()
  for (i, src), (bad, info) in vrun.pmap(work, progs, seed=seed, maxtasks=300, progress=500):
    rep.evaluations += info.get("n", 0) * 3
    rep.outcome(info["outcome"])
    if info.get("n"):
      rep.nontrivial.add(i)
    for b in bad:
      # key on the message without the configuration tag so one cause is one finding
      key = vrun.sha(i + "|" + b.split("] ", 1)[-1])
      if key not in seen:
        seen.add(key)
        rep.violation(key, b, {"src": src, "message": b})
  rep.sample({"downstream_of_prelude": downstream(pt.Stub(pt.analyze(progspace.program(["x = 1"]), module_name="a").pyi))[0][:600]})
  rep.cov.update({"upstream_programs": len(progs), "configurations": ["pythonpath", "imports_map", "pickled"]})
  rep.rule = ("upstream program x re-exported name x configuration; expectation = the type A's stub declares (read with "
              "CPython's ast), compared order-insensitively after stripping the 'a.' qualifier; non-trivial = upstream "
              "programs with at least one re-exported name")
  rep.assumptions += ["functions/methods are probed only when callable without arguments and their declared return type has no TypeVar"]


def replay(case):
  bad, _ = check_upstream(case["src"], False)
  want = case["message"].split("] ", 1)[-1]
  i = progspace.pid(case["src"])
  return [{"key": vrun.sha(i + "|" + want), "summary": b} for b in bad if b.split("] ", 1)[-1] == want][:1]
