"""C02: annotations are enforced exactly (error iff the value is outside the type).

For every annotation of a depth-bounded grammar one program is generated that
presents every ground value at the three enforcement sites (argument, return,
annotated assignment), each on its own line.  Oracle: the value expression is
evaluated under CPython and tested for membership in the annotation (PEP 484).
"""

import ast as pyast
import inspect
import itertools

from vk import admits as adm, boot, pt, run as vrun

ID = "C02"
LEVEL = "exploration"

PRELUDE = '''\
from typing import Any, Callable, Dict, Iterable, List, Literal, Mapping, Optional, Sequence, Set, Tuple, Type, Union
class A: pass
class B(A): pass
class C: pass
def f0(): return 1
def f1(a): return a
def f2(a, b): return a
def fd(a, b=1): return a
def fv(*a): return a
'''

# (expression, tag). Tags drive the documented-policy exclusions.
VALUES = [
    ("0", "scalar"), ("1.5", "scalar"), ("1j", "scalar"), ("'a'", "str"), ("b'b'", "scalar"), ("True", "scalar"),
    ("None", "none"), ("object()", "scalar"), ("A()", "inst"), ("B()", "inst"), ("C()", "inst"),
    ("A", "cls"), ("B", "cls"), ("C", "cls"), ("int", "cls"), ("str", "cls"),
    ("[]", "empty"), ("[1]", "homo"), ("['a']", "homo"), ("[1, 'a']", "hetero"), ("[A()]", "homo"), ("[B()]", "homo"),
    ("[A(), B()]", "hetero"), ("[[1]]", "homo"), ("[None]", "homo"), ("[1, None]", "hetero"),
    ("()", "tuple"), ("(1,)", "tuple"), ("('a',)", "tuple"), ("(1, 'a')", "tuple"), ("(1, 2)", "tuple"),
    ("(A(), B())", "tuple"), ("(B(), A())", "tuple"), ("([1],)", "tuple"),
    ("{}", "empty"), ("{'k': 1}", "homo"), ("{'k': 'a'}", "homo"), ("{1: 1}", "homo"), ("{'k': [1]}", "homo"),
    ("{'k': 1, 'j': 'a'}", "hetero"),
    ("set()", "empty"), ("{1}", "homo"), ("{'a'}", "homo"), ("{1, 'a'}", "hetero"), ("frozenset([1])", "homo"),
    ("f0", "func"), ("f1", "func"), ("f2", "func"), ("fd", "func"), ("fv", "func"),
    ("(lambda: 0)", "func"), ("(lambda a: a)", "func"),
    ("2", "scalar"), ("'r'", "str"), ("False", "scalar"), ("[1, 2]", "homo"), ("(1, 'a', 0)", "tuple"),
    # tuples whose elements share a class but differ in their parameters (first conforms, later does not)
    ("([1], ['a'])", "tuple"), ("([1], [2])", "tuple"), ("((1,), ('a',))", "tuple"), ("({'k': 1}, {'k': 'a'})", "tuple"),
    ("(A(), A(), C())", "tuple"),
    # constants that are equal but differ in (nested) item types: set displays of >=3 constants become frozenset
    # constants, nested tuples stay tuple constants; the later one must not be taken for the earlier one
    ("{1, 2, 3}", "homo"), ("{1.5, 2.5, 3.5}", "homo"), ("{1.0, 2.0, 3.0}", "homo"), ("{True, False, 2}", "homo"),
    ("((1, 0),)", "tuple"), ("((1.0, 0.0),)", "tuple"), ("((True, False),)", "tuple"),
]

SCALARS = ["int", "float", "complex", "str", "bytes", "bool", "None", "object", "Any", "A", "B", "C"]
ELEMS = ["int", "str", "A", "B"]


def annotations(tier):
  out = list(SCALARS)
  gens = ["list[%s]", "List[%s]", "set[%s]", "Sequence[%s]", "Iterable[%s]", "tuple[%s, ...]", "Optional[%s]",
          "dict[str, %s]", "Mapping[str, %s]"]
  for g in gens:
    for e in ELEMS:
      out.append(g % e)
  out += ["type[A]", "type[B]", "type[C]", "type[int]", "Type[A]"]
  out += ["tuple[()]", "tuple[int]", "tuple[int, str]", "tuple[A, B]", "Tuple[int, str]"]
  out += ["Union[int, str]", "int | None", "Union[A, C]", "Union[list[int], str]", "Optional[A]"]
  out += ["list", "dict", "tuple", "set", "type", "Callable"]
  out += ["tuple[list[int], ...]", "Sequence[list[int]]", "Iterable[tuple[int]]", "tuple[dict[str, int], ...]", "tuple[A, ...]"]
  out += ["tuple[tuple[int, int]]", "Sequence[tuple[int, int]]", "tuple[tuple[bool, bool], ...]"]   # nested item types decide
  out += ["Callable[[], int]", "Callable[[int], int]", "Callable[..., Any]", "Callable[[int, int], Any]",
          "Callable[[], Any]"]
  if tier != "quick":
    out += ["list[list[int]]", "dict[str, list[int]]", "Optional[list[int]]", "list[Optional[int]]",
            "tuple[list[int], ...]", "list[tuple[int, str]]", "dict[int, int]", "Dict[str, int]", "Set[int]",
            "frozenset[int]", "Sequence[Sequence[int]]", "Iterable[tuple[int, str]]", "Union[A, B]",
            "Union[int, None, str]", "tuple[int, ...] | None", "type[A] | type[C]", "type[Union[A, C]]",
            "list[Any]", "dict[str, Any]", "tuple[Any, ...]", "list[object]", "Mapping[str, object]",
            "list[float]", "tuple[float, float]", "Sequence[float]", "list[complex]", "Optional[bool]",
            "list[bool]", "tuple[bool]", "dict[str, float]", "Callable[[str], Any]", "Callable[[int], str]",
            "Callable[[A], A]", "list[type[A]]", "tuple[A, ...]", "list[C]", "set[A]", "Optional[tuple[int, str]]",
            "list[Union[int, str]]", "dict[str, Union[int, str]]", "tuple[Union[int, str], ...]",
            "Sequence[Union[A, C]]", "list[list[A]]", "list[dict[str, int]]", "tuple[tuple[int, str], ...]"]
  seen, res = set(), []
  for a in out:
    if a not in seen:
      seen.add(a)
      res.append(a)
  return res


# PEP 586 forms: not among the PEP 484 rules this property states, so they are not judged here; C04 uses
# the programs built from them (their error messages print merged Literal types)
LITERAL_ANNOTATIONS = ["Literal[0]", "Literal['a']", "Literal[True]", "Literal[None]", "Literal[0, 'a']",
                       "Literal['r', 'w', 'a', 'x']", "Literal[0, 10, 2]", "Optional[Literal['a']]", "list[Literal[1, 2]]",
                       "Union[Literal['a'], int]", "tuple[Literal[1], Literal['a']]"]

SITES = ("arg", "ret", "assign")


def build_program(ann):
  """Returns (source, {line: (site, value index)})."""
  lines = PRELUDE.rstrip("\n").split("\n")
  where = {}
  lines.append("def f_arg(p: %s): pass" % ann)
  for i, (v, _) in enumerate(VALUES):
    lines.append("f_arg(%s)" % v)
    where[len(lines)] = ("arg", i)
  for i, (v, _) in enumerate(VALUES):
    lines.append("def r%d() -> %s:" % (i, ann))
    lines.append("  return %s" % v)
    where[len(lines)] = ("ret", i)
  for i, (v, _) in enumerate(VALUES):
    lines.append("x%d: %s = %s" % (i, ann, v))
    where[len(lines)] = ("assign", i)
  return "\n".join(lines) + "\n", where


# further shapes of the argument site: how the argument reaches the annotated parameter
ARG_SHAPES = [
    ("kwarg", "def g_kw(p: %s): pass", "g_kw(p=%s)"),
    ("kwonly", "def g_kwo(*, p: %s): pass", "g_kwo(p=%s)"),
    ("posonly", "def g_po(p: %s, /): pass", "g_po(%s)"),
    ("second", "def g_2(o, p: %s = ..., *r): pass", "g_2(0, %s)"),
    ("method", "class GM:\n  def m(self, p: %s): pass", "GM().m(%s)"),
    ("star", "def g_st(*p: %s): pass", "g_st(%s)"),
    ("dstar", "def g_ds(**p: %s): pass", "g_ds(k=%s)"),
]
ARG_SITES = tuple(a[0] for a in ARG_SHAPES)


def build_program2(ann):
  """The argument-shape program of an annotation: (source, {line: (site, value index)})."""
  lines = PRELUDE.rstrip("\n").split("\n")
  where = {}
  for site, dfn, call in ARG_SHAPES:
    lines += (dfn % ann).split("\n")
    for i, (v, _) in enumerate(VALUES):
      lines.append(call % v)
      where[len(lines)] = (site, i)
  return "\n".join(lines) + "\n", where


_NS = None


def namespace():
  global _NS
  if _NS is None:
    _NS = {"__name__": "__vk_prog__"}
    exec(PRELUDE, _NS)  # pylint: disable=exec-used
  return _NS


def _arity_ok(fn, n):
  try:
    sig = inspect.signature(fn)
  except (TypeError, ValueError):
    return True
  try:
    sig.bind(*([0] * n))
    return True
  except TypeError:
    return False


def inhabits(ann_node, v, env):
  """Strict PEP-484 membership incl. Callable arity; ann_node is a python ast node."""
  if isinstance(ann_node, pyast.Subscript) and adm.strip_mod(pyast.unparse(ann_node.value)) == "Callable":
    sl = ann_node.slice
    if not callable(v):
      return False
    params = sl.elts[0]
    if isinstance(params, pyast.Constant) and params.value is Ellipsis:
      return True
    n = len(params.elts)
    if isinstance(v, type):
      return None  # class objects against a specific Callable signature: not decided here
    return _arity_ok(v, n)
  if isinstance(ann_node, pyast.BinOp):
    l, r = inhabits(ann_node.left, v, env), inhabits(ann_node.right, v, env)
    return None if None in (l, r) and not (l or r) else bool(l or r)
  if isinstance(ann_node, pyast.Subscript):
    base = adm.strip_mod(pyast.unparse(ann_node.value))
    if base in ("Union", "Optional"):
      args = list(ann_node.slice.elts) if isinstance(ann_node.slice, pyast.Tuple) else [ann_node.slice]
      rs = [inhabits(a, v, env) for a in args]
      if base == "Optional":
        rs.append(v is None)
      return True if any(r is True for r in rs) else (None if None in rs else False)
  if isinstance(ann_node, pyast.Subscript) and adm.strip_mod(pyast.unparse(ann_node.value)) == "Set":
    # typing.Set (imported in the prelude) is builtins.set, not the collections.abc.Set ABC
    if not isinstance(v, set):
      return False
    return all(inhabits(ann_node.slice, x, env) is not False for x in v)
  return adm.admits(adm.from_ast(ann_node), v, env)


def excluded(ann, ann_node, vexpr, tag, site, v):
  """Documented pytype policies that are not part of this property's space (DESIGN C02)."""
  a = ann.replace("typing.", "")
  if tag == "str" and any(k in a for k in ("Iterable", "Sequence", "Collection", "Container")):
    return "str vs Iterable[str]"
  if site == "assign" and tag == "none":
    return "None at annotated assignment"
  if (site == "arg" or site in ARG_SITES) and tag == "hetero":
    return "heterogeneous container at argument site"
  if tag == "cls" and "Callable[[" in a:
    return "class object vs specific Callable signature"
  return None


def check_annotation(ann):
  shapes = ann.startswith("@shapes ")
  if shapes:
    ann = ann[len("@shapes "):]
  src, where = build_program2(ann) if shapes else build_program(ann)
  res = pt.analyze(src, share=SHARE, none_is_not_bool=True)
  ns = namespace()
  env = adm.Env(ns)
  ann_node = pyast.parse(ann, mode="eval").body
  errs_by_line = {}
  for name, line, msg in res.errors:
    errs_by_line.setdefault(line, []).append(name)
  expected_name = {"arg": "wrong-arg-types", "ret": "bad-return-type", "assign": "annotation-type-mismatch"}
  expected_name.update({a: "wrong-arg-types" for a in ARG_SITES})
  bad = []
  stats = {"checked": 0, "excluded": 0, "errors_expected": 0}
  vals = [eval(v, ns) for v, _ in VALUES]  # pylint: disable=eval-used
  for line, (site, i) in sorted(where.items()):
    vexpr, tag = VALUES[i]
    v = vals[i]
    if excluded(ann, ann_node, vexpr, tag, site, v):
      stats["excluded"] += 1
      continue
    inh = inhabits(ann_node, v, env)
    if inh is None:
      stats["excluded"] += 1
      continue
    stats["checked"] += 1
    got = errs_by_line.get(line, [])
    if not inh:
      stats["errors_expected"] += 1
      if expected_name[site] not in got:
        bad.append("%s site: %s is not a %s but no [%s] is reported (got %s)" % (site, vexpr, ann, expected_name[site], got))
    elif got:
      bad.append("%s site: %s is a %s but pytype reports %s" % (site, vexpr, ann, got))
  # no error may appear on a line that is not an enforcement site of this program
  for line, names in errs_by_line.items():
    if line not in where:
      bad.append("unexpected error %s on line %d (%r)" % (names, line, src.split("\n")[line - 1]))
  return bad, stats


SHARE = False


def work(ann):
  bad, stats = check_annotation(ann)
  if bad and SHARE:
    global SHARE_SAVE
    bad = _fresh(ann)
  return bad[:40], stats, len(bad)


def _fresh(ann):
  global SHARE
  old, SHARE = SHARE, False
  try:
    return check_annotation(ann)[0]
  finally:
    SHARE = old


def run(rep, tier, seed):
  global SHARE
  SHARE = tier == "quick"
  anns = annotations(tier)
  anns = anns + ["@shapes " + a for a in anns]
  for ann, (bad, stats, nbad) in vrun.pmap(work, anns, seed=seed, chunksize=1):
    rep.evaluations += stats["checked"]
    rep.nontrivial_extra += stats["errors_expected"]
    rep.outcome("conforming", stats["checked"] - stats["errors_expected"])
    rep.outcome("non-conforming", stats["errors_expected"])
    rep.outcome("excluded-by-documented-policy", stats["excluded"])
    for b in bad:
      key = vrun.sha(ann + "|" + b)
      rep.violation(key, "annotation %s: %s" % (ann, b), {"ann": ann, "message": b})
  rep.sample({"annotation": "Sequence[int]", "sites": SITES, "values": [v for v, _ in VALUES[:12]]})
  rep.cov.update({"annotations": len(anns) // 2, "values": len(VALUES), "sites": 3 + len(ARG_SHAPES),
                  "argument_shapes": [a[0] + ": " + a[1].replace("%s", "T") for a in ARG_SHAPES]})
  rep.rule = ("annotation x value x site; error expected iff the run-time value is not an inhabitant (PEP 484 oracle on "
              "the evaluated value); non-trivial = pairs where an error is expected")
  rep.assumptions += ["analysed with none_is_not_bool=True",
                      "excluded documented policies: str vs Iterable/Sequence[str]; None at annotated assignment; "
                      "heterogeneous containers at the argument site; class objects vs specific Callable signatures"]


def replay(case):
  boot.load()
  bad, _ = check_annotation(case["ann"])
  return [{"key": vrun.sha(case["ann"] + "|" + b), "summary": b} for b in bad if b == case["message"]]
