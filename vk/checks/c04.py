"""C04: analysis output is a pure function of source and options.

Explicit exploration of worker histories: for every program P and every
configuration (interpreter hash seed x in-process history of earlier analyses x
loader fresh/reused) the triple (stub text, ordered error report, pickled stub
bytes) must be byte-identical.  One interpreter is started per hash seed
(PYTHONHASHSEED cannot change after start-up); inside it every configuration is
a forked process that replays its history, and every program is analysed in a
further fork of that state, so configurations never contaminate each other.
"""

import hashlib
import json
import os
import subprocess
import sys
import tempfile

from vk import boot, progspace, pt, run as vrun

ID = "C04"
LEVEL = "model_checking"
NEEDS_EXT = True
CONFIRM = True

# Pool of predecessor analyses (histories are all 1- and 2-sequences over it).
POOL = [
    "import collections\nimport enum\nclass Color(enum.Enum):\n  RED = 1\nP = collections.namedtuple('P', ['x', 'y'])\np = P(1, 'a')\nd = collections.OrderedDict()\n",
    "from typing import TypeVar, Generic, List, Dict\nT = TypeVar('T')\nclass Box(Generic[T]):\n  def __init__(self, v: T):\n    self.v = v\ndef f(x: List[int], y: Dict[str, Box[int]]) -> T: ...\nb = Box('s')\n",
    "class A:\n  def m(self):\n    return [1, 'a', None, 2.5, b'b', (), {}, set()]\nclass B(A):\n  v = {1: 'a'}\nx = B().m()\ny = x.nope\nz = 1 + 'a'\n",
    "def g(a, b=1, *c, d, **e):\n  return a if b else c\nr = g(1, d=2)\ns = g()\nt = [i for i in range(3)]\nu = {k: v for k, v in zip('ab', (1, 2))}\n",
    "x = 1\nif input():\n  x = 'a'\nelif input():\n  x = None\nelse:\n  x = [x]\ndef h(q):\n  return q.upper() if isinstance(q, str) else q\ny = h(x)\n",
]

# Error-producing programs (ordering / de-duplication of the report).
ERR = [
    "x = 1 + 'a'\ny = [].nope\nz = undefined_name\ndef f(a: int) -> str:\n  return a\nf('s')\nf(1, 2)\n",
    "def f(a: int):\n  pass\nf('a'); f(b'b')\nf('a')\nfor i in (1, 2):\n  f('q')\n",
    "class K:\n  def m(self) -> int:\n    return 'a'\n  def n(self):\n    return self.missing\nK().m().bad\nK().n()\nK.zz\nK().m(1)\n",
    "import nosuchmodule\nfrom typing import List\ndef f(x: List[int]) -> None: ...\nf(['a'])\nf([1], 2)\nf(y=1)\nx: int = 'a'\n",
]


# Errors raised inside a function that is reached through several call paths: the report is
# de-duplicated by comparing tracebacks, so every subset of call edges is a different case.
TB_EDGES = [("mod", "g"), ("mod", "h1"), ("mod", "h2"), ("h1", "g"), ("h2", "g"), ("k", "h1"), ("k", "h2"), ("mod", "k")]
TB_KINDS = [("indep", "def g(a=0):\n  return [].nope\n"), ("dep", "def g(a=0):\n  return a.nope\n"),
            ("call", "def need(a: int): pass\ndef g(a=0):\n  return need('s')\n")]


def traceback_programs(tier):
  edges = TB_EDGES[:6] if tier == "quick" else TB_EDGES
  kinds = TB_KINDS[:2] if tier == "quick" else TB_KINDS
  out = []
  for kn, gtext in kinds:
    for mask in range(1 << len(edges)):
      es = [e for i, e in enumerate(edges) if mask >> i & 1]
      body = gtext
      for fn in ("h1", "h2", "k"):
        callees = [b for a, b in es if a == fn]
        body += "def %s():\n%s" % (fn, "".join("  %s()\n" % c for c in callees) or "  pass\n")
      body += "".join("%s()\n" % b for a, b in es if a == "mod")
      out.append(("tb:%s:%d" % (kn, mask), body))
  return out


def programs(tier):
  from vk import defspace
  from vk.checks import c02, c03
  out = [(progspace.pid(s), s) for s in ERR + POOL]
  out += traceback_programs(tier)
  # error-producing statements of every adjustable class (C03's PS-err), each alone
  ctxs = ("mod",) if tier == "quick" else ("mod", "fnret", "meth")
  out += [("pserr:%s/%s" % (c, t[0]), c03.render(c, (t[0],))) for c in ctxs for t in c03.TEMPLATES]
  # annotation x value programs (C02): dozens of errors whose messages print unions, Literals, classes
  anns = c02.annotations("quick")
  anns = anns[::8] if tier == "quick" else anns
  out += [("c02:" + a, c02.build_program(a)[0]) for a in anns]
  # definition-rich programs (PS-def)
  dps = defspace.programs("quick" if tier == "quick" else "thorough")
  if tier == "quick":
    dps = [(i, s2) for i, s2 in dps if i.startswith("alone:") or i.startswith(("flow:outside<-", "flow:initattr<-", "flow:union2<-"))]
  out += dps
  ps = progspace.programs("smoke")
  if tier == "quick":
    ps = ps[::4]
  else:
    ps = ps + progspace.programs("quick")[100::6]
  out += [(i, src) for i, src, _ in ps]
  seen, res = set(), []
  for i, src in out:
    if src not in seen:
      seen.add(src)
      res.append((i, src))
  return res


def histories(tier, hashseed=0):
  """In-process histories explored under one hash seed (the cold history () is always explored)."""
  hs = [()]
  n = len(POOL)
  singles = [(i,) for i in range(n)]
  if tier == "quick":
    # quick: every seed cold; the history dimension is explored under seed 0 only
    return hs + ([(0,), (2, 0)] if int(hashseed) == 0 else [])
  if int(hashseed) == 0:
    return hs + singles + [(2, 0), (0, 2), (1, 3), (4, 1)]
  return hs + [(int(hashseed) % n,)]


def _triple(src, loader, opts):
  """(pyi, errors, pickle digest) of one analysis."""
  from pytype import io, load_pytd
  from pytype.imports import pickle_utils
  from pytype.pytd import serialize_ast
  loader = loader or load_pytd.create_loader(opts)
  try:
    ret, pyi = io.generate_pyi(src, opts, loader)
    errs = [(e.name, e.line, e.message) for e in ret.context.errorlog.unique_sorted_errors()]
    try:
      ast = serialize_ast.PrepareForExport("m", ret.ast, loader)
      pk = hashlib.sha1(pickle_utils.Serialize(ast, src_path="m.py")).hexdigest()
    except Exception as e:  # pylint: disable=broad-except
      pk = "pickle-exception:" + type(e).__name__
  except Exception as e:  # pylint: disable=broad-except
    pyi, errs, pk = "exception:" + type(e).__name__ + ":" + str(e)[:100], [], ""
  return pyi, errs, pk


def _one(arg):
  src, loader, opts = arg
  pyi, errs, pk = _triple(src, loader, opts)
  order_ok = errs == sorted(errs, key=lambda e: (e[1] or 0)) or _sorted_by_line(errs)
  uniq_ok = len(set(errs)) == len(errs)
  return {"d": hashlib.sha1(json.dumps([pyi, errs, pk]).encode()).hexdigest()[:16],
          "pyi": hashlib.sha1(pyi.encode()).hexdigest()[:8],
          "err": hashlib.sha1(json.dumps(errs).encode()).hexdigest()[:8], "pk": pk[:8],
          "nerr": len(errs), "sorted": order_ok, "unique": uniq_ok}


def _sorted_by_line(errs):
  lines = [e[1] or 0 for e in errs]
  return lines == sorted(lines)


def _config_job(job):
  """Runs inside a pool worker forked from the import-only state."""
  hist, reuse, progs = job
  opts = pt.options(module_name="m")
  loader = None
  if reuse or hist:
    from pytype import load_pytd
    loader = load_pytd.create_loader(opts)
  for k in hist:
    _triple(POOL[k], loader if reuse else None, opts)
  out = {}
  for i, src in progs:
    out[i] = vrun.isolated(_one, (src, loader if reuse else None, opts))
  return out


def child_main(argv):
  """Entry point of the per-seed interpreter: vk.checks.c04 --child tier out.json"""
  tier, outp = argv
  boot.load()
  from pytype import io, load_pytd  # import only; nothing analysed in this process
  from pytype.imports import pickle_utils
  from pytype.pytd import serialize_ast
  del io, load_pytd, pickle_utils, serialize_ast
  progs = programs(tier)
  jobs = []
  nprocs = int(os.environ.get("VERIF_C04_PROCS", "6"))
  for h in histories(tier, os.environ.get('VERIF_HASHSEED', '0')):
    # the cold configuration pays the builtins load per program: split it finer
    nchunk = 8 if not h else 2
    for c in range(nchunk):
      chunk = progs[c::nchunk]
      if not chunk:
        continue
      jobs.append((h, False, chunk))
      if h:
        jobs.append((h, True, chunk))
  res = {}
  for job, out in vrun.pmap(_config_job, jobs, procs=min(len(jobs), nprocs), chunksize=1, maxtasks=1, shuffle=False):
    res.setdefault("%s|%s" % (",".join(map(str, job[0])) or "cold", "reuse" if job[1] else "fresh"), {}).update(out)
  with open(outp, "w") as f:
    json.dump(res, f)


def run_seed(hashseed, tier):
  fd, outp = tempfile.mkstemp(suffix=".json")
  os.close(fd)
  env = dict(os.environ, PYTHONHASHSEED=str(hashseed), VERIF_HASHSEED=str(hashseed), VERIF_REEXEC="1")
  p = subprocess.Popen([sys.executable, "-W", "ignore", "-c",
                        "import sys; sys.path.insert(0, %r); from vk.checks import c04; c04.child_main(sys.argv[1:])" % boot.VERIF,
                        tier, outp], env=env)
  return p, outp


def collect(tier, seeds):
  procs = [(s,) + run_seed(s, tier) for s in seeds]
  data = {}
  for s, p, outp in procs:
    rc = p.wait()
    if rc != 0:
      raise RuntimeError("C04 child for hash seed %s failed (rc=%s)" % (s, rc))
    with open(outp) as f:
      data[s] = json.load(f)
    os.unlink(outp)
  return data


def compare(data, progs):
  """Returns violations [(key, summary, case)], states, transitions."""
  viol = []
  states = transitions = 0
  for i, src in progs:
    seen = {}
    for s, confs in data.items():
      for conf, out in confs.items():
        transitions += 1
        r = out[i]
        seen.setdefault(r["d"], []).append(("seed=%s" % s, conf, r))
        if not r["sorted"] or not r["unique"]:
          viol.append((vrun.sha(i + "order"), "errors not %s (seed=%s, %s)" % (
              "sorted" if not r["sorted"] else "unique", s, conf), {"pid": i, "src": src, "kind": "order"}))
    states += len(seen)
    if len(seen) > 1:
      groups = sorted(seen.values(), key=len, reverse=True)
      a, b = groups[0][0], groups[1][0]
      what = [k for k in ("pyi", "err", "pk") if a[2][k] != b[2][k]]
      viol.append((vrun.sha(i + "diff"), "output differs between configurations (%s): %s/%s vs %s/%s; %d distinct outputs" % (
          "+".join(what), a[0], a[1], b[0], b[1], len(seen)),
                   {"pid": i, "src": src, "kind": "diff", "configs": [[g[0][0], g[0][1]] for g in groups]}))
  return viol, states, transitions


def run(rep, tier, seed):
  seeds = [0, 1, 2] if tier == "quick" else [0, 1, 2, 3, 7, 42]
  progs = programs(tier)
  data = collect(tier, seeds)
  viol, states, transitions = compare(data, progs)
  for key, summ, case in viol:
    case["tier"] = tier
    case["seeds"] = seeds
    rep.violation(key, summ, case)
  nconf = sum(len(c) for c in data.values())
  rep.cov.update({"states": states, "transitions": transitions, "traces_validated_against_impl": transitions,
                  "programs": len(progs), "hash_seeds": seeds, "configurations": nconf,
                  "histories_seed0": [list(h) for h in histories(tier, 0)],
                  "histories_other_seeds": [list(h) for h in histories(tier, 1)]})
  rep.evaluations = transitions
  rep.nontrivial_extra = sum(1 for i, s in progs if any(o[i]["nerr"] for c in data[seeds[0]].values() for o in [c]))
  rep.outcome("distinct-outputs", states)
  rep.outcome("analyses", transitions)
  rep.sample({"program": ERR[0], "configs": list(data[seeds[0]].keys())[:6]})
  rep.rule = ("state = (hash seed, history of analyses in the process, loader fresh/reused); transition = analyse one "
              "more program in a fork of that state; every (program, configuration) executed on the real pipeline; "
              "states counts distinct outputs per program summed (== programs when pure); non-trivial = programs with errors")
  rep.assumptions += ["hash seeds are a fixed menu %s, not the 2^32 space" % seeds,
                      "the import-only parent state is taken as the 'fresh process' state"]


def replay(case):
  tier = case.get("tier", "quick")
  seeds = case.get("seeds", [0, 1, 2])
  progs = [(case["pid"], case["src"])]
  global programs
  orig = programs
  # restrict the space to the one program (children import this module afresh, so pass via env)
  os.environ["VERIF_C04_ONLY"] = json.dumps(progs)
  try:
    data = collect(tier, seeds)
  finally:
    os.environ.pop("VERIF_C04_ONLY", None)
  viol, _, _ = compare(data, progs)
  return [{"key": k, "summary": s} for k, s, _ in viol]


if os.environ.get("VERIF_C04_ONLY"):
  _only = [tuple(x) for x in json.loads(os.environ["VERIF_C04_ONLY"])]

  def programs(tier, _only=_only):  # pylint: disable=function-redefined
    return _only
