"""C04: analysis output is a pure function of source and options.

Explicit exploration of worker histories: for every program P and every
configuration (interpreter hash seed x in-process history of earlier analyses x
loader fresh/reused) the triple (stub text, ordered error report, pickled stub
bytes) must be byte-identical.  One interpreter is started per hash seed
(PYTHONHASHSEED cannot change after start-up); inside it every configuration is
a forked process that replays its history, and every program is analysed in a
further fork of that state, so configurations never contaminate each other.
"""

import hashlib
import json
import os
import subprocess
import sys
import tempfile

from vk import boot, progspace, pt, run as vrun

ID = "C04"
LEVEL = "model_checking"
NEEDS_EXT = True
CONFIRM = True

# Pool of predecessor analyses (histories are all 1- and 2-sequences over it).
POOL = [
    "import collections\nimport enum\nclass Color(enum.Enum):\n  RED = 1\nP = collections.namedtuple('P', ['x', 'y'])\np = P(1, 'a')\nd = collections.OrderedDict()\n",
    "from typing import TypeVar, Generic, List, Dict\nT = TypeVar('T')\nclass Box(Generic[T]):\n  def __init__(self, v: T):\n    self.v = v\ndef f(x: List[int], y: Dict[str, Box[int]]) -> T: ...\nb = Box('s')\n",
    "class A:\n  def m(self):\n    return [1, 'a', None, 2.5, b'b', (), {}, set()]\nclass B(A):\n  v = {1: 'a'}\nx = B().m()\ny = x.nope\nz = 1 + 'a'\n",
    "def g(a, b=1, *c, d, **e):\n  return a if b else c\nr = g(1, d=2)\ns = g()\nt = [i for i in range(3)]\nu = {k: v for k, v in zip('ab', (1, 2))}\n",
    "x = 1\nif input():\n  x = 'a'\nelif input():\n  x = None\nelse:\n  x = [x]\ndef h(q):\n  return q.upper() if isinstance(q, str) else q\ny = h(x)\n",
]

# Error-producing programs (ordering / de-duplication of the report).
ERR = [
    "x = 1 + 'a'\ny = [].nope\nz = undefined_name\ndef f(a: int) -> str:\n  return a\nf('s')\nf(1, 2)\n",
    "def f(a: int):\n  pass\nf('a'); f(b'b')\nf('a')\nfor i in (1, 2):\n  f('q')\n",
    "class K:\n  def m(self) -> int:\n    return 'a'\n  def n(self):\n    return self.missing\nK().m().bad\nK().n()\nK.zz\nK().m(1)\n",
    "import nosuchmodule\nfrom typing import List\ndef f(x: List[int]) -> None: ...\nf(['a'])\nf([1], 2)\nf(y=1)\nx: int = 'a'\n",
]


# Errors raised inside a function that is reached through several call paths: the report is
# de-duplicated by comparing tracebacks, so every subset of call edges is a different case.
TB_EDGES = [("mod", "g"), ("mod", "h1"), ("mod", "h2"), ("h1", "g"), ("h2", "g"), ("k", "h1"), ("k", "h2"), ("mod", "k")]
TB_KINDS = [("indep", "def g(a=0):\n  return [].nope\n"), ("dep", "def g(a=0):\n  return a.nope\n"),
            ("call", "def need(a: int): pass\ndef g(a=0):\n  return need('s')\n")]
# every call site passes an argument of a different type, so no call is served from the call cache and
# every call path logs the callee's error with its own traceback
TB_ARG = {("mod", "g"): "None", ("h1", "g"): "1", ("h2", "g"): "'s'", ("mod", "h1"): "1.5", ("k", "h1"): "b'x'",
          ("mod", "h2"): "[1]", ("k", "h2"): "(1,)", ("mod", "k"): "{1}"}


def traceback_programs(tier):
  edges = TB_EDGES[:5] + TB_EDGES[7:] if tier == "quick" else TB_EDGES
  kinds = TB_KINDS[:2] if tier == "quick" else TB_KINDS
  out = []
  for kn, gtext in kinds:
    for mask in range(1 << len(edges)):
      es = [e for i, e in enumerate(edges) if mask >> i & 1]
      body = gtext
      for fn in ("h1", "h2", "k"):
        callees = [b for a, b in es if a == fn]
        body += "def %s(b=0):\n%s" % (fn, "".join("  %s(%s)\n" % (c, TB_ARG[(fn, c)]) for c in callees) or "  pass\n")
      body += "".join("%s(%s)\n" % (b, TB_ARG[(a, b)]) for a, b in es if a == "mod")
      out.append(("tb:%s:%d" % (kn, mask), body))
  return out


# Several errors on one line, one per binding of a variable that got all its bindings at one CFG node
# (a union-annotated parameter): their order in the report follows the order of the bindings.
UNION_MEMBERS = ["int", "str", "bytes", "None", "list[int]", "A"]
UNION_USES = ["x.nope", "x()", "x + 1j", "x['k']", "len(x)"]


def union_error_programs(tier):
  import itertools
  out = []
  sizes = (2, 3) if tier == "quick" else (2, 3, 4)
  for n in sizes:
    for combo in itertools.combinations(UNION_MEMBERS, n):
      if tier == "quick" and n == 3 and "A" not in combo and "None" not in combo:
        continue
      body = "class A: pass\n"
      for k, use in enumerate(UNION_USES):
        body += "def f%d(x: %s):\n  return %s\n" % (k, " | ".join(combo), use)
      body += "def g(x: %s, y: %s):\n  return x.nope, y.nope2, x.nope3\n" % (" | ".join(combo), " | ".join(reversed(combo)))
      out.append(("uerr:" + "|".join(combo), body))
  return out


def programs(tier):
  from vk import defspace
  from vk.checks import c02, c03
  out = [(progspace.pid(s), s) for s in ERR + POOL]
  out += traceback_programs(tier)
  out += union_error_programs(tier)
  # error-producing statements of every adjustable class (C03's PS-err), each alone
  ctxs = ("mod",) if tier == "quick" else ("mod", "meth")
  out += [("pserr:%s/%s" % (c, t[0]), c03.render(c, (t[0],))) for c in ctxs for t in c03.TEMPLATES]
  # annotation x value programs (C02): dozens of errors whose messages print unions, Literals, classes
  anns = c02.annotations("quick")
  anns = (anns[::8] if tier == "quick" else anns[::3]) + c02.LITERAL_ANNOTATIONS
  out += [("c02:" + a, c02.build_program(a)[0]) for a in anns]
  # definition-rich programs (PS-def)
  dps = defspace.programs("quick")
  if tier != "quick":   # thorough: every third program of the quick PS-def set (the full set x all configurations is hours)
    dps = dps[::3]
  if tier == "quick":
    dps = [(i, s2) for i, s2 in dps if i.startswith("alone:") or
           (i.startswith(("flow:outside<-", "flow:initattr<-", "flow:union2<-")) and i.rsplit("#", 1)[1] in "012")]
  out += dps
  ps = progspace.programs("smoke")
  if tier == "quick":
    ps = ps[::4]
  else:
    ps = ps + progspace.programs("quick")[100::12]
  out += [(i, src) for i, src, _ in ps]
  seen, res = set(), []
  for i, src in out:
    if src not in seen:
      seen.add(src)
      res.append((i, src))
  return res


# ---------------------------------------------------------------- configurations
#
# state      = (hash seed, loader mode, sequence of programs analysed so far in the process)
# transition = analyse one more program
#
#   cold    every program in its own process forked from the import-only state (fresh loader,
#           builtins not yet loaded): the reference "fresh process" configuration
#   fresh   a chain: the programs of a chunk one after the other in ONE process, a new loader each
#   reuse   a chain with one loader shared by the whole chunk
#
# Chains are cut from differently ordered program lists with different chunk counts, so every
# program is preceded by different histories in different configurations.


def configs(tier, hashseed):
  """[(name, mode, order, nchunks, stride)] for one hash seed; stride thins the cold configuration."""
  hs = int(hashseed)
  if tier == "quick":
    chains = {0: [("fresh-fwd", "fresh", "fwd", 8, 1), ("reuse-rev", "reuse", "rev", 7, 1)],
              1: [("reuse-rot", "reuse", "rot", 5, 1)], 2: [("fresh-rev", "fresh", "rev", 5, 1)]}
    return [("cold", "cold", "fwd", 4, 8)] + chains.get(hs, chains[1])
  if hs == 0:
    return [("cold", "cold", "fwd", 32, 1), ("fresh-fwd", "fresh", "fwd", 16, 1), ("reuse-rev", "reuse", "rev", 13, 1),
            ("fresh-rot", "fresh", "rot", 11, 1), ("reuse-fwd", "reuse", "fwd", 7, 1)]
  chain = [("reuse-rot", "reuse", "rot", 5, 1), ("fresh-rev", "fresh", "rev", 5, 1)][hs % 2]
  return [("cold", "cold", "fwd", 8, 4), chain]


def ordered(progs, order):
  progs = list(progs)
  if order == "rev":
    progs.reverse()
  elif order == "rot":
    k = len(progs) // 3
    progs = progs[k:] + progs[:k]
    progs = progs[::2] + progs[1::2]
  return progs


def chunks_of(progs, order, nchunks, stride):
  ps = ordered(progs, order)[::stride]
  size = -(-len(ps) // nchunks)
  return [ps[i:i + size] for i in range(0, len(ps), size)]


def _pickle_digest(arg):
  ast, loader = arg
  from pytype.imports import pickle_utils
  from pytype.pytd import serialize_ast
  try:
    ast = serialize_ast.PrepareForExport("m", ast, loader)
    return hashlib.sha1(pickle_utils.Serialize(ast, src_path="m.py")).hexdigest()
  except Exception as e:  # pylint: disable=broad-except
    return "pickle-exception:" + type(e).__name__


def _triple(src, loader, opts):
  """(pyi, errors, pickle digest) of one analysis."""
  from pytype import io, load_pytd
  loader = loader or load_pytd.create_loader(opts)
  try:
    ret, pyi = io.generate_pyi(src, opts, loader)
    errs = [(e.name, e.line, e.message) for e in ret.context.errorlog.unique_sorted_errors()]
    # PrepareForExport prints and re-parses the AST, so SerializeAst's in-place clearing of class
    # pointers only touches that fresh copy (unlike serialising a loader's own cached AST)
    pk = _pickle_digest((ret.ast, loader))
  except Exception as e:  # pylint: disable=broad-except
    pyi, errs, pk = "exception:" + type(e).__name__ + ":" + str(e)[:100], [], ""
  return pyi, errs, pk


def _one(arg):
  src, loader, opts = arg
  pyi, errs, pk = _triple(src, loader, opts)
  uniq_ok = len(set(errs)) == len(errs) and not _redundant(errs)
  return {"d": hashlib.sha1(json.dumps([pyi, errs, pk]).encode()).hexdigest()[:16],
          "pyi": hashlib.sha1(pyi.encode()).hexdigest()[:8],
          "err": hashlib.sha1(json.dumps(errs).encode()).hexdigest()[:8], "pk": pk[:8],
          "nerr": len(errs), "sorted": _sorted_by_line(errs), "unique": uniq_ok}


_TB = "\nCalled from (traceback):\n"


def _redundant(errs):
  """Two reports of one error (same class, line and message) whose call tracebacks are comparable.

  The report keeps one error per *incomparable* traceback; a report without a traceback, or whose
  traceback is a tail of another report's traceback, makes the longer one a duplicate.
  """
  groups = {}
  for name, line, msg in errs:
    base, _, tb = msg.partition(_TB)
    groups.setdefault((name, line, base), []).append([ln.strip() for ln in tb.split("\n") if ln.strip()])
  for tbs in groups.values():
    for i, a in enumerate(tbs):
      for j, b in enumerate(tbs):
        if i != j and (not a or (len(a) <= len(b) and b[len(b) - len(a):] == a)):
          return True
  return False


def _sorted_by_line(errs):
  lines = [e[1] or 0 for e in errs]
  return lines == sorted(lines)


class _Filler:
  pass


_KEEP = []
SMALL = 1500   # characters
REPS = 2      # analyses in a row (different hole patterns) of a small program inside a chain; thorough: 3
_SLOTTED = [type("_S%d" % n, (), {"__slots__": tuple("f%d" % j for j in range(n))}) for n in range(0, 63)]
_STRIDE = {"fresh-fwd": 2, "reuse-rev": 3, "reuse-rot": 5, "fresh-rev": 7, "fresh-rot": 4, "reuse-fwd": 6}


def _punch_holes(stride, k):
  """Leaves freed blocks of the common size classes behind, in a pattern that differs per configuration.

  Object identities (addresses) order id-keyed sets; blocks freed by earlier work are reused
  last-in-first-out, so the holes decide the relative addresses of the objects the next analysis
  creates.  This makes 'which other work the process did before' vary between configurations in the
  one respect that a set ordered by id() can observe.
  """
  del _KEEP[:]
  objs = []
  for i in range(200 + 37 * (k % 7)):
    f = _Filler()
    f.a = i
    objs.append(f)
    objs.append({"k": i})
    objs.append([i, f])
    objs.append((i, f, None))
    # one object of every small size class (16 .. 512 bytes): instances with 0..62 slots
    for cls in _SLOTTED[(i % 3)::3]:
      objs.append(cls())
  for i, o in enumerate(objs):
    if i % stride:
      _KEEP.append(o)
  del objs


def _chain_job(job):
  """Runs inside a pool worker forked from the import-only state (one worker per job)."""
  name, mode, chunk = job
  opts = pt.options(module_name="m")
  out = {}
  stride = _STRIDE.get(name.split("#")[0])
  if mode == "cold":
    for i, src in chunk:
      out[i] = [vrun.isolated(_one, (src, None, opts))]
    return name, out
  loader = None
  if mode == "reuse":
    from pytype import load_pytd
    loader = load_pytd.create_loader(opts)
  for k, (i, src) in enumerate(chunk):
    # small programs are analysed three times in a row under different hole patterns (each a transition)
    reps = REPS if len(src) < SMALL else 1
    rs = []
    for rep in range(reps):
      if stride:
        _punch_holes(stride, 3 * k + rep)
      rs.append(_one((src, loader, opts)))
    out[i] = rs
  return name, out


def jobs_for(tier, hashseed, progs):
  jobs = []
  for name, mode, order, nchunks, stride in configs(tier, hashseed):
    for ci, chunk in enumerate(chunks_of(progs, order, nchunks, stride)):
      jobs.append(("%s#%d" % (name, ci), mode, chunk))
  return jobs


def child_main(argv):
  """Entry point of the per-seed interpreter: vk.checks.c04 --child tier out.json"""
  global REPS
  tier, outp = argv
  REPS = 2
  boot.load()
  from pytype import io, load_pytd  # import only; nothing analysed in this process
  from pytype.imports import pickle_utils
  from pytype.pytd import serialize_ast
  del io, load_pytd, pickle_utils, serialize_ast
  only = os.environ.get("VERIF_C04_JOBS")
  if only:
    jobs = [tuple(j) for j in json.load(open(only))]
    jobs = [(n, m, [tuple(x) for x in c]) for n, m, c in jobs]
  else:
    jobs = jobs_for(tier, os.environ.get("VERIF_HASHSEED", "0"), programs(tier))
  nprocs = int(os.environ.get("VERIF_C04_PROCS", "5"))
  res = {}
  for job, (name, out) in vrun.pmap(_chain_job, jobs, procs=min(len(jobs), nprocs), chunksize=1, maxtasks=1, shuffle=False):
    res.setdefault(name.split("#")[0], {}).update({i: [dict(r, job=name, rep=n) for n, r in enumerate(rs)] for i, rs in out.items()})
  with open(outp, "w") as f:
    json.dump(res, f)


def run_seed(hashseed, tier, jobs_file=None):
  fd, outp = tempfile.mkstemp(suffix=".json")
  os.close(fd)
  env = dict(os.environ, PYTHONHASHSEED=str(hashseed), VERIF_HASHSEED=str(hashseed), VERIF_REEXEC="1")
  if jobs_file:
    env["VERIF_C04_JOBS"] = jobs_file
  p = subprocess.Popen([sys.executable, "-W", "ignore", "-c",
                        "import sys; sys.path.insert(0, %r); from vk.checks import c04; c04.child_main(sys.argv[1:])" % boot.VERIF,
                        tier, outp], env=env)
  return p, outp


def collect(tier, seeds, jobs_files=None):
  # at most ~16 analysis processes at a time: seeds run in waves of three interpreters x 5 workers
  data = {}
  waves = [seeds[i:i + 3] for i in range(0, len(seeds), 3)]
  procs = []
  for wave in waves:
    started = [(s,) + run_seed(s, tier, (jobs_files or {}).get(s)) for s in wave]
    for s, p, outp in started:
      p.wait()
    procs += started
  for s, p, outp in procs:
    rc = p.wait()
    if rc != 0:
      raise RuntimeError("C04 child for hash seed %s failed (rc=%s)" % (s, rc))
    with open(outp) as f:
      data[s] = json.load(f)
    os.unlink(outp)
  return data


def compare(data, progs):
  """Returns violations [(key, summary, case)], states, transitions."""
  viol = []
  states = transitions = 0
  for i, src in progs:
    seen = {}
    for s, confs in data.items():
      for conf, out in confs.items():
        if i not in out:
          continue   # thinned configuration (cold stride)
        for r in out[i]:
          transitions += 1
          seen.setdefault(r["d"], []).append((int(s), r["job"], r))
          if not r["sorted"] or not r["unique"]:
            viol.append((vrun.sha(i + "order"), "errors not %s (seed=%s, %s)" % (
                "sorted" if not r["sorted"] else "unique", s, conf),
                         {"pid": i, "src": src, "kind": "order", "configs": [[int(s), r["job"]]]}))
    states += len(seen)
    if len(seen) > 1:
      groups = sorted(seen.values(), key=lambda g: (-len(g), g[0][:2]))
      a, b = groups[0][0], groups[1][0]
      what = [k for k in ("pyi", "err", "pk") if a[2][k] != b[2][k]]
      viol.append((vrun.sha(i + "diff"), "output differs between configurations (%s): seed=%s/%s vs seed=%s/%s; %d distinct outputs over %d configurations" % (
          "+".join(what), a[0], a[1], b[0], b[1], len(seen), sum(len(g) for g in groups)),
                   {"pid": i, "src": src, "kind": "diff", "configs": [[g[0][0], g[0][1]] for g in groups[:4]]}))
  return viol, states, transitions


def run(rep, tier, seed):
  seeds = [0, 1, 2] if tier == "quick" else [0, 1, 2, 3]
  progs = programs(tier)
  data = collect(tier, seeds)
  viol, states, transitions = compare(data, progs)
  seen = set()
  for key, summ, case in viol:
    if key in seen:
      continue
    seen.add(key)
    case["tier"] = tier
    rep.violation(key, summ, case)
  confs = {s: configs(tier, s) for s in seeds}
  rep.cov.update({"states": transitions, "distinct_outputs_summed_over_programs": states,
                  "transitions": transitions, "traces_validated_against_impl": transitions,
                  "programs": len(progs), "hash_seeds": seeds,
                  "configurations_per_seed": {str(s): [list(c) for c in cs] for s, cs in confs.items()},
                  "chains": sum(len(chunks_of(progs, o, n, st)) for s in seeds for _, m, o, n, st in confs[s] if m != "cold"),
                  "program_families": {fam: sum(1 for i, _ in progs if i.startswith(fam)) for fam in
                                       ("tb:", "uerr:", "pserr:", "c02:", "alone:", "flow:", "pair:", "cls:")}})
  rep.evaluations = transitions
  s0 = data[seeds[0]]
  rep.nontrivial_extra = sum(1 for i, _ in progs if any(r.get("nerr") for o in s0.values() for r in o.get(i, [])))
  rep.outcome("programs-with-one-output", sum(1 for _ in progs) - len([1 for k, _, c in viol if c["kind"] == "diff"]))
  rep.outcome("analyses", transitions)
  rep.outcome("programs-with-errors", rep.nontrivial_extra)
  rep.sample({"program": ERR[0], "configs": list(s0.keys())})
  rep.sample({"chain": [i for i, _ in chunks_of(progs, "rev", 7, 1)[3][:6]], "config": "reuse-rev#3 (first six programs of the chain)"})
  rep.rule = ("state = (hash seed, loader mode, sequence of programs analysed so far in the process); transition = analyse one "
              "more program on the real pipeline (pyi text, ordered error report, pickled stub bytes digested); cold = every program "
              "in a process forked from the import-only state; fresh/reuse = chains cut from differently ordered program lists so each "
              "program has different predecessors in each configuration; every program's outputs over all configurations must be "
              "identical, errors unique and sorted by line; non-trivial = programs with errors")
  rep.assumptions += ["hash seeds are a fixed menu %s, not the 2^32 space" % seeds,
                      "the import-only parent state is taken as the 'fresh process' state",
                      "the pickle export runs in a fork of the state (pytype exports as the last act of a process; SerializeAst clears class pointers in place)"]


def _job_upto(tier, hashseed, progs, jobname, pid_):
  for name, mode, chunk in jobs_for(tier, hashseed, progs):
    if name == jobname:
      ids = [i for i, _ in chunk]
      return [name, mode, chunk[:ids.index(pid_) + 1]]
  raise KeyError(jobname)


def replay(case):
  """Re-runs the chains that led to the differing outputs (each in a fresh interpreter with its hash seed)."""
  tier = case.get("tier", "quick")
  progs = programs(tier)
  pid_ = case["pid"]
  by_seed = {}
  for s, jobname in case["configs"]:
    by_seed.setdefault(int(s), []).append(_job_upto(tier, s, progs, jobname, pid_))
  files = {}
  try:
    for s, jobs in by_seed.items():
      fd, path = tempfile.mkstemp(suffix=".jobs.json")
      with os.fdopen(fd, "w") as f:
        json.dump(jobs, f)
      files[s] = path
    data = collect(tier, sorted(by_seed), jobs_files=files)
  finally:
    for path in files.values():
      os.unlink(path)
  viol, _, _ = compare(data, [(pid_, case["src"])])
  want = vrun.sha(pid_ + case["kind"])
  return [{"key": k, "summary": s} for k, s, _ in viol if k == want]
