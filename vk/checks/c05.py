"""C05: every emitted stub parses, verifies and is a print/parse fixpoint.

(a) stubs emitted for generated programs (PS-core + a definitions-rich alphabet),
(b) generated stubs in the emitted dialect (vk/stubspace.py).
Oracles: pytype's own parser/verifier/printer for the fixpoint laws, plus an
independent reader (CPython's ast) cross-checked against what pytype's parser read.
"""

import ast as pyast

from vk import admits as adm, boot, progspace, pt, run as vrun, stubspace

ID = "C05"
LEVEL = "exploration"

# Definitions-rich programs (in addition to PS-core).
DEFS = [
    "from typing import TypeVar, Generic\nT = TypeVar('T')\nclass Box(Generic[T]):\n  def __init__(self, v: T):\n    self.v = v\n  def get(self) -> T:\n    return self.v\nb = Box(1)\nr = b.get()\n",
    "class P:\n  def __init__(self):\n    self._x = 1\n  @property\n  def x(self):\n    return self._x\n  @x.setter\n  def x(self, v):\n    self._x = v\np = P().x\n",
    "class S:\n  @staticmethod\n  def s(a, b=1):\n    return a\n  @classmethod\n  def c(cls, a):\n    return cls()\nu = S.s(1)\nv = S.c(2)\n",
    "class Outer:\n  class Inner:\n    y = 1\n    def m(self):\n      return 'i'\n  def mk(self):\n    return Outer.Inner()\nz = Outer().mk()\n",
    "def f(a, /, b, *, c=1, **kw):\n  return a, b, c, kw\ndef g(*args, k):\n  return args, k\nr = f(1, 2, c=3, z=4)\ns = g(1, 'a', k=None)\n",
    "async def co(a):\n  return a\nasync def co2():\n  return await co(1)\n",
    "def gen(n):\n  yield n\n  yield 'a'\n  return 1.5\ng = gen(1)\n",
    "import collections\nPt = collections.namedtuple('Pt', ['x', 'y'])\np = Pt(1, 'a')\nq = p.x\n",
    "from typing import NamedTuple\nclass Rec(NamedTuple):\n  a: int\n  b: str = 'z'\nr = Rec(1)\n",
    "import enum\nclass Color(enum.Enum):\n  RED = 1\n  BLUE = 'b'\nc = Color.RED\nv = Color.BLUE.value\n",
    "from typing import TypeVar\nT = TypeVar('T', int, str)\nU = TypeVar('U', bound=float)\ndef f(a: T, b: U) -> T:\n  return a\nr = f(1, 2.5)\n",
    "def br(a):\n  if isinstance(a, int):\n    return 'i'\n  elif isinstance(a, str):\n    return 1\n  return None\nr1 = br(1)\nr2 = br('a')\nr3 = br(None)\n",
    "from typing import Optional, Union, Callable, Any\ndef f(a: Optional[int], b: Union[int, str], c: Callable[[int], str], d: Callable[..., Any]) -> None:\n  pass\n",
    "from typing import Literal\ndef f(a: Literal['r', 'w'], b: Literal[1, 2]) -> Literal[True]:\n  return True\nx: Literal['q'] = 'q'\n",
    "from typing import List, Dict, Tuple, Type\nclass K: pass\ndef f(a: List[int], b: Dict[str, K], c: Tuple[int, ...], d: Tuple[int, str], e: Type[K], g: Tuple[()]) -> None:\n  pass\n",
    "class M(type):\n  pass\nclass WithMeta(metaclass=M):\n  pass\nw = WithMeta()\n",
    "class Base:\n  def m(self, a: int) -> int:\n    return a\nclass Der(Base):\n  def m(self, a):\n    return super().m(a)\nclass Mixin:\n  k = (1, 'a')\nclass Both(Der, Mixin):\n  pass\nb = Both().k\n",
    "import abc\nclass Abs(abc.ABC):\n  @abc.abstractmethod\n  def m(self): ...\n",
    "def deco(f):\n  return f\n@deco\ndef wrapped(a: int) -> str:\n  return str(a)\nlam = lambda a, b=2: (a, b)\n",
    "x = [1, 'a', None]\ny = {'k': (1, 2.5)}\nz = {1, 'a'}\nw = (lambda: [None])()\nt = (1, ('a', [b'b']))\n",
    "class Slots:\n  __slots__ = ('a', 'b')\n  def __init__(self):\n    self.a = 1\n    self.b = 'b'\n",
    "from typing import Any\ndef f(x) -> Any:\n  return x.y\ndef g(x: 'K') -> 'K':\n  return x\nclass K: pass\n",
    "def outer():\n  def inner(a):\n    return a\n  return inner\nfn = outer()\nr = fn(1)\n",
    "class zed:\n  pass\nclass c:\n  pass\nx = c() if input() else 1 if input() else zed()\n",
    "class Cmp:\n  def __eq__(self, o):\n    return True\n  def __lt__(self, o):\n    return False\n  def __hash__(self):\n    return 1\n  def __getitem__(self, i):\n    return i\n  def __call__(self, *a):\n    return a\nc = Cmp()(1, 'a')\n",
]


def programs(tier):
  from vk import defspace
  out = [(progspace.pid(src), src) for src in DEFS]
  out += [(progspace.pid(src), src) for _, src in defspace.programs(tier)]
  if tier == "quick":
    out += [(i, src) for i, src, _ in progspace.programs("smoke")]
  else:
    out += [(i, src) for i, src, _ in progspace.programs("quick")]
  return out


def _po():
  from pytype.pyi import parser
  return parser.PyiOptions.from_toplevel_options(pt.options())


_AMAP = {}


def _norm(term):
  k = term[0]
  if k == "cls":
    last = term[1].split(".")[-1]
    return ("cls", _AMAP.get(last, last))
  if k == "union":
    ms = frozenset(_norm(x) for x in term[1])
    return next(iter(ms)) if len(ms) == 1 else ("union", ms)
  if k == "gen":
    return ("gen", term[1].split(".")[-1], tuple(_norm(x) for x in term[2]))
  if k == "tuple":
    return ("tuple", tuple(_norm(x) for x in term[1]))
  if k in ("vtuple", "type"):
    return (k, _norm(term[1]))
  if k == "literal":
    if term[1] is None:
      return ("none",)
    return ("literal", type(term[1]).__name__, term[1])
  return term


_IMPLICIT_KIND = {"__new__": "staticmethod", "__init_subclass__": "classmethod", "__class_getitem__": "classmethod"}
_SKIP_BASES = {"NamedTuple", "Enum", "IntEnum", "Protocol", "TypedDict", "Generic", "ABC"}


def cross_read(text, tree):
  """Compares pytype's reading of a stub with an independent CPython-ast reading."""
  from pytype.pytd import pytd
  bad = []
  st = pt.Stub(text)
  tv = st.typevars | {tp.name for tp in tree.type_params}
  _AMAP.clear()
  _AMAP.update(st.import_aliases)

  def tname(n):
    return n.split(".")[-1]

  def cmp_consts(ac, pc, where):
    pn = {tname(c.name): c for c in pc}
    for name, ann in ac.items():
      if name not in pn:
        bad.append("%s: constant %s in the text was not read by the parser" % (where, name))
        continue
      a, b = _norm(adm.from_ast(ann, tv)), _norm(adm.from_pytd(pn[name].type, tv))
      if a != b:
        bad.append("%s: constant %s: text says %s, parser read %s" % (where, name, pyast.unparse(ann), b))

  def cmp_funcs(af, pf, where, pconsts=(), in_class=False):
    pn = {tname(f.name): f for f in pf}
    for name, defs in af.items():
      decos = {pyast.unparse(d).split(".")[-1] for d0 in defs for d in d0.decorator_list}
      if decos & {"setter", "deleter", "getter", "property"}:
        # the parser turns properties into constants `p: Annotated[T, 'property']`
        pcn = {tname(c.name): c for c in pconsts}
        if name not in pcn:
          bad.append("%s: property %s in the text was not read by the parser" % (where, name))
        elif defs[0].returns is not None and "property" in decos and len(defs) == 1:
          ta, tb = _norm(adm.from_ast(defs[0].returns, tv)), _norm(adm.from_pytd(pcn[name].type, tv))
          if ta != tb:
            bad.append("%s: property %s: text says %s, parser read %s" % (where, name, pyast.unparse(defs[0].returns), tb))
        continue
      if name not in pn:
        bad.append("%s: function %s in the text was not read by the parser" % (where, name))
        continue
      f = pn[name]
      if in_class:
        want = ("staticmethod" if "staticmethod" in decos else "classmethod" if "classmethod" in decos else
                _IMPLICIT_KIND.get(name, "method"))
        got_kind = getattr(f.kind, "value", str(f.kind))
        # an undecorated __class_getitem__ is an implicit classmethod for CPython; either reading is accepted
        if got_kind != want and not (name == "__class_getitem__" and not decos):
          bad.append("%s: method %s: text declares a %s, parser read a %s" % (where, name, want, got_kind))
      if len(f.signatures) != len(defs):
        bad.append("%s: function %s has %d defs in the text but %d signatures were read" % (
            where, name, len(defs), len(f.signatures)))
        continue
      for d, sig in zip(defs, f.signatures):
        a = d.args
        exp = ([(x.arg, "posonly") for x in a.posonlyargs] + [(x.arg, "regular") for x in a.args] +
               [(x.arg, "kwonly") for x in a.kwonlyargs])
        got = [(p.name, p.kind.value) for p in sig.params]
        if exp != got:
          bad.append("%s: %s parameters: text %s, parser read %s" % (where, name, exp, got))
          continue
        ndef = len(a.defaults)
        pos = a.posonlyargs + a.args
        opt = [False] * (len(pos) - ndef) + [True] * ndef + [x is not None for x in a.kw_defaults]
        if opt != [p.optional for p in sig.params]:
          bad.append("%s: %s default markers differ: text %s, parser read %s" % (
              where, name, opt, [p.optional for p in sig.params]))
        if (a.vararg is None) != (sig.starargs is None) or (a.kwarg is None) != (sig.starstarargs is None):
          bad.append("%s: %s star-parameters differ between text and parser" % (where, name))
        allargs = pos + a.kwonlyargs
        for x, p in zip(allargs, sig.params):
          if x.annotation is not None:
            ta, tb = _norm(adm.from_ast(x.annotation, tv)), _norm(adm.from_pytd(p.type, tv))
            if ta != tb:
              bad.append("%s: %s(%s): text says %s, parser read %s" % (where, name, x.arg, pyast.unparse(x.annotation), tb))
        if d.returns is not None:
          ta, tb = _norm(adm.from_ast(d.returns, tv)), _norm(adm.from_pytd(sig.return_type, tv))
          if isinstance(d, pyast.AsyncFunctionDef):
            pass  # parser wraps the return type in Coroutine[Any, Any, T]
          elif ta != tb:
            bad.append("%s: %s returns: text says %s, parser read %s" % (where, name, pyast.unparse(d.returns), tb))

  def cmp_classes(ac, pc, where):
    pn = {tname(c.name): c for c in pc}
    for name, ci in ac.items():
      if name not in pn:
        bad.append("%s: class %s in the text was not read by the parser" % (where, name))
        continue
      c = pn[name]
      bases_txt = [pyast.unparse(b).split("[")[0].split(".")[-1] for b in ci.bases]
      if set(bases_txt) & _SKIP_BASES:
        continue
      bases_read = [tname(getattr(b, "name", None) or getattr(getattr(b, "base_type", None), "name", None)
                          or ("Any" if type(b).__name__ == "AnythingType" else "?")) for b in c.bases]
      if bases_txt and bases_txt != bases_read:
        bad.append("%s: class %s bases: text %s, parser read %s" % (where, name, bases_txt, bases_read))
      cmp_consts(ci.consts, c.constants, where + name + ".")
      cmp_funcs(ci.funcs, c.methods, where + name + ".", c.constants, in_class=True)
      cmp_classes(ci.classes, c.classes, where + name + ".")

  cmp_consts(st.consts, tree.constants, "")
  cmp_funcs(st.funcs, tree.functions, "")
  cmp_classes(st.classes, tree.classes, "")
  return bad


def check_text(text, emitted):
  """Laws on one stub text. emitted=True: text must already be the fixpoint."""
  boot.load()
  from pytype.pyi import parser
  from pytype.pytd import pytd_utils, visitors
  po = _po()
  try:
    tree = parser.parse_string(text, options=po)
  except Exception as e:  # pylint: disable=broad-except
    return ["stub does not parse: %s: %s" % (type(e).__name__, str(e).splitlines()[0] if str(e) else "")]
  try:
    tree.Visit(visitors.VerifyVisitor())
  except Exception as e:  # pylint: disable=broad-except
    return ["stub fails VerifyVisitor: %s: %s" % (type(e).__name__, str(e)[:200])]
  try:
    canon = parser.canonical_pyi(text, options=po) + "\n"
  except Exception as e:  # pylint: disable=broad-except
    return ["canonical_pyi raised %s: %s" % (type(e).__name__, str(e)[:200])]
  bad = []
  if emitted:
    if canon != text:
      bad.append("not a print/parse fixpoint: " + _diff(text, canon))
    bad += cross_read(text, tree)
    return bad
  # generated stub: one round of canonicalisation must reach the fixpoint
  bad += ["after one canonicalisation: " + b for b in check_text(canon, True)]
  if not bad:
    # what is read back from the re-printed text must be of the kinds that were read from the text
    bad += ["re-printed text: " + b for b in kinds_differ(tree, canon)]
  if not bad:
    # the original (possibly non-dialect) text is cross-read too
    bad += cross_read(text, tree)
  return bad


def _kinds(unit):
  """{path of a function: (kind, number of signatures, flags)} for a pytd unit (names without module prefix)."""
  out = {}

  def walk(cls, prefix):
    for m in cls.methods:
      out[prefix + m.name.split(".")[-1]] = (getattr(m.kind, "value", str(m.kind)), len(m.signatures))
    for c in cls.classes:
      walk(c, prefix + c.name.split(".")[-1] + ".")
  for f in unit.functions:
    out[f.name.split(".")[-1]] = (getattr(f.kind, "value", str(f.kind)), len(f.signatures))
  for c in unit.classes:
    walk(c, c.name.split(".")[-1] + ".")
  return out


def kinds_differ(emitted_ast, text):
  """The declarations read back from the emitted text must be of the kinds that were printed."""
  from pytype.pyi import parser
  a, b = _kinds(emitted_ast), _kinds(parser.parse_string(text, options=_po()))
  bad = []
  for k in sorted(set(a) | set(b)):
    if a.get(k) != b.get(k):
      bad.append("emitted %s as %s, re-read as %s" % (k, a.get(k), b.get(k)))
  return bad


def _diff(a, b):
  la, lb = a.split("\n"), b.split("\n")
  for i, (x, y) in enumerate(zip(la, lb)):
    if x != y:
      return "line %d: emitted %r, re-printed %r" % (i + 1, x, y)
  return "length differs: %d vs %d lines" % (len(la), len(lb))


def work(item):
  kind, i, text = item
  if kind == "prog":
    try:
      res = pt.analyze(text, share=True)
    except Exception as e:  # pylint: disable=broad-except
      return [], "analysis-exception", None
    bad = check_text(res.pyi, True)
    if not bad:
      bad = kinds_differ(res.ast, res.pyi)
    return bad[:3], "prog-" + ("union" if "Union" in res.pyi else "plain"), res.pyi if bad else None
  bad = check_text(text, False)
  body = text[len(stubspace.HEADER) + len(stubspace.CLASS_DEFS):] if text.startswith(stubspace.HEADER) else text
  first = (body.strip().split("\n")[0] + " ").split()[0]
  return bad[:3], "stub-" + first.split("(")[0][:8], None


def run(rep, tier, seed):
  items = [("prog", i, src) for i, src in programs(tier)]
  items += [("stub", i, t) for i, t in stubspace.stubs(tier)]
  np_ = sum(1 for x in items if x[0] == "prog")
  for (kind, i, text), (bad, outcome, pyi) in vrun.pmap(work, items, seed=seed, progress=5000):
    rep.evaluations += 1
    rep.outcome(outcome if kind == "prog" else "stub-" + outcome[5:6])
    rep.nontrivial.add(i)
    if bad:
      rep.violation(i, "%s: %s" % ("stub emitted for program" if kind == "prog" else "generated stub", bad[0]),
                    {"kind": kind, "text": text, "pyi": pyi, "all": bad})
  rep.sample({"generated_stub": items[-40][2]})
  rep.sample({"program": DEFS[4]})
  rep.cov.update({"programs": np_, "generated_stubs": len(items) - np_,
                  "type_forms": len(stubspace.types(tier)),
                  "decl_forms": len(stubspace.DECLS1) + len(stubspace.DECLS2) + len(stubspace.IMPORT_FORMS)})
  rep.rule = ("(a) stub of every program (definitions alphabet + PS-core of the tier); (b) every declaration form x "
              "every type form, 2-hole forms x ordered pairs of a type core, declaration forms pairwise; each distinct "
              "stub text counts once")
  rep.assumptions += ["fixpoint witness is parser.canonical_pyi (the anchored mechanism)",
                      "cross-reader (CPython ast) skips NamedTuple/Enum/Protocol/Generic-based classes and property methods"]


def replay(case):
  boot.load()
  if case["kind"] == "prog":
    res = pt.analyze(case["text"])
    bad = check_text(res.pyi, True) or kinds_differ(res.ast, res.pyi)
  else:
    bad = check_text(case["text"], False)
  key = progspace.pid(case["text"]) if case["kind"] == "prog" else stubspace.sid(case["text"])
  return [{"key": key, "summary": bad[0]}] if bad else []
