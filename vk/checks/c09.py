"""C09: CFG reachability equals true graph reachability at all times.

Explicit-state exploration of insertion histories on the real cfg.Program.
Ops: ("new",), ("cnew", a), ("conn", a, b)   (node indices are creation order)
Seed prefixes are encoded as ("seed", shape, P) as the first op.
"""

import itertools

from vk import boot, explore, run as vrun

ID = "C09"
LEVEL = "model_checking"
ASAN = {"thorough": True}


def _seed_edges(shape, p):
  if shape == "chain":
    return [(i, i + 1) for i in range(p - 1)]
  if shape == "star":
    return [(0, i) for i in range(1, p)]
  if shape == "two":   # two disjoint chains: evens and odds
    return [(i, i + 2) for i in range(p - 2)]
  if shape == "back":  # chain plus a back edge from the last to the middle
    return [(i, i + 1) for i in range(p - 1)] + [(p - 1, p // 2)]
  if shape == "none":
    return []
  if shape == "rev":   # chain pointing from high ids to low ids
    return [(i + 1, i) for i in range(p - 1)]
  if shape == "hop":   # every node reaches the node one 64-bit word further on
    return [(i, i + 64) for i in range(p - 64)] + [(i, i + 1) for i in range(0, p - 1, 64)]
  if shape == "ring":  # one big cycle
    return [(i, i + 1) for i in range(p - 1)] + [(p - 1, 0)]
  raise ValueError(shape)


class Live:
  __slots__ = ("prog", "nodes", "edges", "window", "maxnew", "nseed")


class Reach(explore.Model):

  def __init__(self, max_nodes, window_old=(), maxnew=None, fullcheck=True):
    self.max_nodes = max_nodes      # bound on total nodes when no seed
    self.window_old = window_old    # callable P -> list of old indices
    self.maxnew = maxnew
    self.fullcheck = fullcheck

  def build(self, hist):
    cfg = boot.load()
    s = Live()
    s.prog = cfg.Program()
    s.nodes = []
    s.edges = set()
    s.nseed = 0
    for op in hist:
      self.apply(s, op)
    return s

  def apply(self, s, op):
    k = op[0]
    if k == "seed":
      _, shape, p = op
      for i in range(p):
        s.nodes.append(s.prog.NewCFGNode("n%d" % i))
      for a, b in _seed_edges(shape, p):
        s.nodes[a].ConnectTo(s.nodes[b])
        s.edges.add((a, b))
      s.nseed = p
    elif k == "new":
      s.nodes.append(s.prog.NewCFGNode("n%d" % len(s.nodes)))
    elif k == "cnew":
      a = op[1]
      n = s.nodes[a].ConnectNew("n%d" % len(s.nodes))
      s.nodes.append(n)
      s.edges.add((a, len(s.nodes) - 1))
    elif k == "conn":
      _, a, b = op
      s.nodes[a].ConnectTo(s.nodes[b])
      s.edges.add((a, b))
    else:
      raise ValueError(op)

  def _window(self, s):
    if s.nseed:
      old = self.window_old(s.nseed)
      return list(old) + list(range(s.nseed, len(s.nodes)))
    return list(range(len(s.nodes)))

  def enabled(self, s, hist):
    w = self._window(s)
    ops = []
    nnew = len(s.nodes) - s.nseed
    can_grow = (nnew < self.maxnew) if s.nseed else (len(s.nodes) < self.max_nodes)
    if can_grow:
      ops.append(("new",))
      ops += [("cnew", a) for a in w]
    ops += [("conn", a, b) for a in w for b in w]
    return ops

  def _truth(self, s):
    """reach[a] = set of nodes reachable from a over recorded edges (reflexive)."""
    n = len(s.nodes)
    succ = [[] for _ in range(n)]
    for a, b in s.edges:
      succ[a].append(b)
    reach = []
    for a in range(n):
      seen = {a}
      st = [a]
      while st:
        x = st.pop()
        for y in succ[x]:
          if y not in seen:
            seen.add(y)
            st.append(y)
      reach.append(seen)
    return reach

  def _observe(self, s):
    """Implementation's matrix restricted to (window x all) and (all x window)."""
    w = self._window(s)
    isr = s.prog.is_reachable
    nodes = s.nodes
    n = len(nodes)
    rows = {}
    if s.nseed and not self.fullcheck:
      others = sorted(set(w) | {0, 1, 31, 32, 33, 62, 63, 64, 65, n - 1} & set(range(n)))
    else:
      others = range(n)
    for a in w:
      na = nodes[a]
      rows[a] = (frozenset(b for b in others if isr(na, nodes[b])),
                 frozenset(b for b in others if isr(nodes[b], na)))
    return rows, others

  def check(self, s, hist):
    truth = self._truth(s)
    rows, others = self._observe(s)
    s_obs = rows
    bad = []
    for a, (fwd, bwd) in rows.items():
      tf = frozenset(b for b in others if b in truth[a])
      tb = frozenset(b for b in others if a in truth[b])
      if fwd != tf:
        d = sorted(fwd ^ tf)[:4]
        bad.append("is_reachable(n%d, n%s) wrong (impl %s)" % (a, d, [x in fwd for x in d]))
      if bwd != tb:
        d = sorted(bwd ^ tb)[:4]
        bad.append("is_reachable(n%s, n%d) wrong (impl %s)" % (d, a, [x in bwd for x in d]))
    s_obs = tuple(sorted((a, tuple(sorted(f)), tuple(sorted(b))) for a, (f, b) in rows.items()))
    self._last_obs = s_obs
    if bad:
      return [(vrun.jkey(list(hist)), "after %s: %s" % (list(hist)[-3:], "; ".join(bad[:2])))]
    return []

  def canon(self, s, hist):
    # (node count, edge set added after the seed, observed matrix): the matrix is
    # the analyzer's complete observable state; see DESIGN C09 for the argument.
    seedop = hist[0] if hist and hist[0][0] == "seed" else None
    base = set(_seed_edges(seedop[1], seedop[2])) if seedop else ()
    # self-edges are no-ops for ConnectTo and for the truth relation (reflexive)
    added = frozenset(e for e in s.edges if e[0] != e[1] and e not in base)
    obs = self._last_obs if not seedop else hash(self._last_obs)
    return (seedop, len(s.nodes), added, obs)


def _nomerge(model, max_nodes, depth, rep):
  """All histories of <= depth ops from empty, without state merging (DFS)."""
  count = 0
  stack = [()]
  while stack:
    h = stack.pop()
    s = model.build(h)
    count += 1
    for key, summ in model.check(s, h):
      rep.violation(key, summ, {"history": list(h), "label": "nomerge"})
    if len(h) < depth:
      for op in model.enabled(s, h):
        stack.append(h + (op,))
  return count


def run(rep, tier, seed):
  boot.load()
  states = trans = 0
  levels_all = {}
  # Part 1: from the empty program, all histories (merged on the exact state key)
  nmax, depth = (4, 18) if tier == "quick" else (4, 18)
  m = Reach(max_nodes=nmax)
  st, tr, lv = explore.bfs(m, [()], depth, rep, seed=seed, label="empty<=%d" % nmax)
  states += st; trans += tr; levels_all["empty<=%d" % nmax] = lv
  rep.outcome("states_from_empty", st)
  # Part 1b: histories without merging (guards the merging argument)
  nm_depth = 4 if tier == "quick" else 5
  cnt = _nomerge(Reach(max_nodes=3), 3, nm_depth, rep)
  rep.outcome("nomerge_histories", cnt)
  trans += cnt
  # Part 2: bucket-boundary seeds, window histories (one search, many inits)
  if tier == "quick":
    sizes, shapes, wdepth, maxnew = (62, 63, 64, 127), ("chain", "star", "back"), 3, 2
    wold = lambda p: [0, p - 1]
  else:
    sizes, shapes, wdepth, maxnew = (31, 61, 62, 63, 64, 125, 126, 127, 128, 191), \
        ("chain", "star", "two", "back", "none"), 4, 3
    wold = lambda p: [0, p // 2, p - 1]
  m = Reach(max_nodes=None, window_old=wold, maxnew=maxnew, fullcheck=True)
  inits = [(("seed", shape, p),) for p in sizes for shape in shapes]
  st, tr, lv = explore.bfs(m, inits, wdepth, rep, seed=seed, label="seed")
  states += st; trans += tr; levels_all["seeds"] = lv
  rep.outcome("states_from_seeds", st)
  # Part 3: seeds spanning 3-5 bit words; the window holds one old node on each side of every word
  # boundary, so every order of {edge into / out of / across a later word, new node} is explored
  if tier == "quick":
    sizes3, shapes3, wdepth3, maxnew3 = (128, 129, 192, 193, 257), ("chain", "rev", "hop", "none"), 2, 1
  else:
    sizes3, shapes3, wdepth3, maxnew3 = (128, 129, 191, 192, 193, 255, 256, 257, 320, 321), \
        ("chain", "rev", "hop", "ring", "two", "none"), 3, 2
  wold3 = lambda p: sorted({0, 63, 64, 127, 128, (p - 1) // 64 * 64 - 1, (p - 1) // 64 * 64, p - 1} & set(range(p)))
  m3 = Reach(max_nodes=None, window_old=wold3, maxnew=maxnew3, fullcheck=True)
  inits3 = [(("seed", shape, p),) for p in sizes3 for shape in shapes3]
  st, tr, lv = explore.bfs(m3, inits3, wdepth3, rep, seed=seed, label="seedwide")
  states += st; trans += tr; levels_all["wide_seeds"] = lv
  rep.outcome("states_from_wide_seeds", st)
  rep.cov.update({
      "wide_seeds": {"sizes": list(sizes3), "shapes": list(shapes3), "window_depth": wdepth3,
                     "window_new_nodes": maxnew3,
                     "window_old_nodes": "0, 63, 64, 127, 128, first and last-but-one word boundary, p-1"},
      "states": states, "transitions": trans,
      "traces_validated_against_impl": trans,
      "levels": levels_all,
      "bounds": {"from_empty_nodes": nmax, "nomerge_depth": nm_depth,
                 "seed_sizes": list(sizes), "seed_shapes": list(shapes),
                 "window_depth": wdepth, "window_new_nodes": maxnew},
  })
  rep.evaluations = trans
  rep.nontrivial_extra = states
  rep.rule = ("states = distinct (node count, edge set, observed reachability matrix); every transition "
              "executes NewCFGNode/ConnectNew/ConnectTo on a real cfg.Program rebuilt from scratch and "
              "compares is_reachable on window x all nodes (both directions) with BFS over recorded edges")
  rep.sample({"history": [["new"], ["cnew", 0], ["conn", 1, 0], ["conn", 1, 1]],
              "checked": "is_reachable(a,b) for all ordered pairs == BFS"})
  rep.sample({"history": [["seed", "chain", 63], ["cnew", 62], ["conn", 63, 0]],
              "checked": "rows/cols of window nodes {0,62,63} vs all 64 nodes"})
  rep.assumptions += [
      "state merging assumes the bit matrix restricted to existing nodes is the analyzer's whole state "
      "(bits for not-yet-created nodes are unobservable); a non-merging exploration to depth %d guards this" % nm_depth,
      "node/edge alphabets bounded as in coverage.bounds; larger graphs are not covered",
  ]


def replay(case):
  boot.load()
  hist = tuple(tuple(op) for op in case["history"])
  if case.get("label", "") == "seedwide":
    m = Reach(None, window_old=lambda p: sorted({0, 63, 64, 127, 128, (p - 1) // 64 * 64 - 1, (p - 1) // 64 * 64, p - 1}
                                                & set(range(p))), maxnew=9)
  elif case.get("label", "").startswith("seed"):
    p = hist[0][2]
    m = Reach(None, window_old=lambda p: [0, p // 2, p - 1], maxnew=9)
  else:
    m = Reach(max_nodes=99)
  out = []
  for i in range(1, len(hist) + 1):
    s = m.build(hist[:i])
    for key, summ in m.check(s, hist[:i]):
      out.append({"key": vrun.jkey(list(hist)), "summary": summ})
  return out[:1]
