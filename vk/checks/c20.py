"""C20: merging a stub into source changes annotations only.

Enumerated: every program of a definitions alphabet (functions with every
parameter kind, defaults, lambdas in defaults, nested functions, async,
decorators, methods / static / class methods / properties, nested classes,
module and class variables incl. tuple / list / chained targets and
re-assignments, existing partial annotations) up to a depth, each merged by
pytype.tools.merge_pyi.merge_sources with
  (a) the stub pytype infers for it, and
  (b) every stub of a pairwise-covering family that gives each parameter /
      return / variable of the program a type from a fixed alphabet (or none).
Oracle (CPython's ast only, independent of libcst and of pytype's stub reader):
the output compiles; after stripping annotations it equals the input statement
by statement, the only additional module-level statements being imports the
stub has, TypeVar assignments the stub has and bare `name: T` declarations;
annotations present in the input are unchanged; every inserted annotation equals
(modulo quoting and import qualification) the annotation the stub gives for that
very definition; no inserted return / variable annotation is a bare Any/Never.
"""

import ast
import copy
import functools
import re
import time

from vk import boot, pt, run as vrun

ID = "C20"
LEVEL = "exploration"
NEEDS_EXT = True

# ------------------------------------------------------------------ alphabet
# `@@` marks where a method's first parameter goes.

FUNCS = [
    ("f_id", "def f(@@a):\n  return a", ()),
    ("f_all", "def f(@@a, b=1, *args, c, d=2, **kw):\n  return a", ()),
    ("f_pos", "def f(@@a, /, b: str, *, c=lambda u: u) -> int:\n  return 1", ()),
    ("f_async", "async def f(@@a):\n  return a", ()),
    ("f_deco", "@deco\ndef f(@@a):\n  return a", ("deco",)),
    ("f_nest", "def f(@@a):\n  def inner(p, q: int = 3):\n    return p\n  return inner", ()),
    ("f_never", "def f(@@a: int, b=None):\n  raise ValueError()", ()),
    ("f_anyx", "def f(@@a) -> Any:\n  return a.foo", ("Any",)),
    ("f_opt", "def f(@@a, b: Optional[int] = None):\n  return b", ("Optional",)),
    ("f_optq", "def f(@@a, b: typing.Optional[int] = None):\n  return b", ("typing",)),
    ("f_star", "def f(@@*args: int, **kw):\n  return kw", ()),
    ("f_lam", "def f(@@a=lambda: 0, *, k=(lambda v: v)):\n  return [a, k]", ()),
    ("f_none", "def f(@@):\n  pass", ()),
    ("f_gen", "def f(@@a):\n  yield a", ()),
    ("f_tv", "def f(@@a: T, b):\n  return a", ("T",)),
    ("f_str", "def f(@@a: 'K', b) -> 'K':\n  return a", ()),
    ("f_redef", "def f(@@a):\n  return 1\ndef f(@@a, b):\n  return 2", ()),
    ("f_cond", "if input():\n  def f(@@a):\n    return a\nelse:\n  def f(@@a, b=1):\n    return b", ()),
]
VARS = [
    ("v_one", "x = [1]", ()),
    ("v_tup", "x, y = [1], 'a'", ()),
    ("v_multi", "x = y = [1]", ()),
    ("v_re", "x = [1]\nx = ['a']", ()),
    ("v_ann", "x: int = 1", ()),
    ("v_bare", "x: int", ()),
    ("v_any", "x = [].pop()", ()),
    ("v_list", "[x, y] = [1], [2]", ()),
    ("v_under", "_, x = 1, [2]", ()),
    ("v_lam", "x = lambda a: a", ()),
    ("v_if", "if input():\n  x = [1]\nelse:\n  x = 'a'", ()),
    ("v_aug", "x = [1]\nx += [2]", ()),
    ("v_anntup", "x: list = []\nx, y = [1], [2]", ()),
    ("v_int", "x = 1", ()),
    ("v_nt", "class N(NamedTuple):\n  a: int\n  b: str = 'z'\nx = N(1)\ny = [x.a]", ("NamedTuple",)),
    ("v_td", "class D(TypedDict):\n  a: int\nx = D(a=1)\ny = [x]", ("TypedDict",)),
]
ITEMS = {i: (t, n) for i, t, n in FUNCS + VARS}
FUNC_IDS = [i for i, _, _ in FUNCS]
VAR_IDS = [i for i, _, _ in VARS]
# flavours of a function item inside a class
EXTRA_FLAVOURS = [("f_id", "static"), ("f_all", "static"), ("f_id", "class"), ("f_all", "class"),
                  ("f_none", "prop")]
NESTED_CORE = ["f_id", "f_pos", "v_one", "v_tup"]
CORE_QUICK = ["f_id", "f_pos", "v_one", "v_tup"]
CORE_THOROUGH = ["f_id", "f_all", "f_pos", "f_opt", "v_one", "v_tup", "v_re", "v_ann"]
CORE_TRIPLE = ["f_id", "f_pos", "v_one", "v_tup"]

_REN = [(r"\bf\b", "g"), (r"\bx\b", "u"), (r"\by\b", "v"), (r"\binner\b", "inner2")]


def item_text(iid, scope, flavour="plain", ren=False):
  """Source text (unindented) of one placed item."""
  t, _ = ITEMS[iid]
  if ren:
    for a, b in _REN:
      t = re.sub(a, b, t)
  incls = scope != "M"
  first = ""
  deco = None
  if incls and iid.startswith("f_"):
    if flavour in ("plain", "prop"):
      first = "self"
    elif flavour == "class":
      first = "cls"
    if flavour == "static":
      deco = "@staticmethod"
    elif flavour == "class":
      deco = "@classmethod"
    elif flavour == "prop":
      deco = "@property"
  if first:
    t = t.replace("@@)", first + ")").replace("@@", first + ", ")
  else:
    t = t.replace("@@", "")
  if deco:
    top = 2 if t.startswith("if ") else 0   # the item's own def lines, not nested defs
    lines = []
    for ln in t.split("\n"):
      st = ln.lstrip()
      if (st.startswith("def ") or st.startswith("async def ")) and len(ln) - len(st) == top:
        lines.append(" " * top + deco)
      lines.append(ln)
    t = "\n".join(lines)
  return t


def _indent(text, n):
  pad = " " * n
  return "\n".join(pad + ln for ln in text.split("\n"))


def render(spec):
  """spec: tuple of (scope, item id, flavour, renamed); scope in M, K, L, K.I."""
  needs = set()
  for _, iid, _, _ in spec:
    needs.update(ITEMS[iid][1])
  pre = []
  if "typing" in needs:
    pre.append("import typing")
  ty = sorted(needs & {"Any", "Optional", "NamedTuple", "TypedDict"}) + (["TypeVar"] if "T" in needs else [])
  if ty:
    pre.append("from typing import " + ", ".join(ty))
  if "T" in needs:
    pre.append("T = TypeVar('T')")
  if "deco" in needs:
    pre.append("def deco(fn):\n  return fn")
  out = list(pre)
  cur = None
  for scope, iid, fl, ren in spec:
    txt = item_text(iid, scope, fl, ren)
    if scope == "M":
      out.append(txt)
      cur = None
    elif scope == "K.I":
      if cur != scope:
        out.append("class K:\n  class I:")
      out.append(_indent(txt, 4))
      cur = scope
    else:
      if cur != scope:
        out.append("class %s:" % scope)
      out.append(_indent(txt, 2))
      cur = scope
  return "\n".join(out) + "\n"


def specs_for(tier):
  """The program space of a tier: (tag, spec) with tag in full / inf.

  `full` programs get the inferred stub and the whole generated-stub family,
  `inf` programs only the stub pytype infers.
  """
  allids = FUNC_IDS + VAR_IDS
  full, inf = [], []
  # depth 1: every item in every placement
  for i in allids:
    full.append((("M", i, "plain", False),))
    full.append((("K", i, "plain", False),))
  for i, fl in EXTRA_FLAVOURS:
    full.append((("K", i, fl, False),))
  for i in NESTED_CORE:
    full.append((("K.I", i, "plain", False),))

  def pairs(core, ctxs):
    out = []
    for a in core:
      for b in core:
        for sa, sb, ren in ctxs:
          out.append(((sa, a, "plain", False), (sb, b, "plain", ren)))
    return out

  if tier == "quick":
    full += pairs(CORE_QUICK, [("M", "M", False), ("M", "K", False), ("K", "K", True)])
    inf += pairs(CORE_THOROUGH, [("M", "M", False), ("M", "K", False), ("K", "K", True)])
  else:
    ctx5 = [("M", "M", False), ("M", "K", False), ("K", "M", False), ("K", "K", True), ("K", "L", False)]
    full += pairs(CORE_THOROUGH, ctx5)
    for a in CORE_TRIPLE:
      for b in CORE_TRIPLE:
        for c in CORE_TRIPLE:
          for sa, sb, sc in [("M", "M", "M"), ("M", "K", "K"), ("K", "M", "L")]:
            full.append(((sa, a, "plain", False), (sb, b, "plain", sb == sa), (sc, c, "plain", False)))
    inf += pairs(allids, [("M", "M", False), ("M", "K", False), ("K", "K", True)])
  seen, res = set(), []
  for tag, lst in (("full", full), ("inf", inf)):
    for sp in lst:
      src = render(sp)
      if src in seen:
        continue
      seen.add(src)
      res.append((tag, sp, src))
  return res


# -------------------------------------------------------- generated stubs
# the number of types must be prime (orthogonal-array construction); Decimal and OrderedDict need imports
# that are not typing imports
TYPES7 = [None, "int", "Any", "Never", "Optional[int]", "Decimal", "_T"]
TYPES11 = [None, "int", "str", "Any", "Never", "Optional[int]", "list[int]", "Callable[..., Any]", "_T",
           "Literal[1]", "dict[str, Any]"]
TYPES13 = TYPES11 + ["Decimal", "collections.OrderedDict[str, int]"]
_SKIP_NAMES = {"deco", "T"}


class Skel:
  """Definitions of a program, read off its syntax tree (not from pytype)."""

  def __init__(self, src):
    self.nslots = 0
    self.root = self._body(ast.parse(src).body, False)

  def _slot(self):
    self.nslots += 1
    return self.nslots - 1

  def _body(self, body, incls):
    ents, seenv, seenf = [], set(), set()

    def names(t):
      if isinstance(t, ast.Name):
        yield t.id
      elif isinstance(t, (ast.Tuple, ast.List)):
        for e in t.elts:
          yield from names(e)

    def rec(stmts):
      for st in stmts:
        if isinstance(st, (ast.FunctionDef, ast.AsyncFunctionDef)):
          if st.name in _SKIP_NAMES:
            continue
          decos = [d.id for d in st.decorator_list if isinstance(d, ast.Name)
                   and d.id in ("staticmethod", "classmethod", "property")]
          a = st.args
          shape = (st.name, len(a.posonlyargs), len(a.args), tuple(x.arg for x in a.kwonlyargs),
                   a.vararg is not None, a.kwarg is not None)
          if shape in seenf:
            continue
          seenf.add(shape)
          nd = len(a.defaults)
          pos = a.posonlyargs + a.args
          params = []
          for k, x in enumerate(pos):
            kind = "posonly" if k < len(a.posonlyargs) else "pos"
            params.append([kind, x.arg, k >= len(pos) - nd, None])
          if a.vararg:
            params.append(["vararg", a.vararg.arg, False, None])
          for x, d in zip(a.kwonlyargs, a.kw_defaults):
            params.append(["kwonly", x.arg, d is not None, None])
          if a.kwarg:
            params.append(["kwarg", a.kwarg.arg, False, None])
          skip_first = incls and "staticmethod" not in decos
          for k, p in enumerate(params):
            if k == 0 and skip_first and p[0] in ("posonly", "pos"):
              continue
            p[3] = self._slot()
          ents.append(("func", st.name, decos, params, self._slot()))
        elif isinstance(st, ast.ClassDef):
          ents.append(("class", st.name, self._body(st.body, True), [ast.unparse(b) for b in st.bases]))
        elif isinstance(st, (ast.Assign, ast.AnnAssign)):
          ts = st.targets if isinstance(st, ast.Assign) else [st.target]
          for t in ts:
            for n in names(t):
              if n not in seenv and n not in _SKIP_NAMES and n != "_":
                seenv.add(n)
                ents.append(("var", n, self._slot()))
        elif isinstance(st, (ast.If, ast.For, ast.While, ast.With, ast.Try)):
          for fld in ("body", "orelse", "finalbody"):
            rec(getattr(st, fld, []) or [])
    rec(body)
    return ents

  def stub(self, assign, types, vars_last=False):
    """Stub text for one slot->type-index assignment (variable declarations before or after defs/classes)."""
    def ty(slot):
      return None if slot is None else types[assign[slot]]

    def emit(ents, ind):
      pad = " " * ind
      lines = []
      vlines = []
      for e in ents:
        if e[0] == "var":
          t = ty(e[2])
          if t is not None:
            vlines.append("%s%s: %s" % (pad, e[1], t))
      if not vars_last:
        lines += vlines
      for e in ents:
        if e[0] == "func":
          _, name, decos, params, rslot = e
          parts, seen_star, seen_slash = [], False, False
          npos = sum(1 for p in params if p[0] == "posonly")
          for k, (kind, pn, hasdef, slot) in enumerate(params):
            if kind == "kwonly" and not seen_star:
              parts.append("*")
              seen_star = True
            t = ty(slot)
            s = {"vararg": "*", "kwarg": "**"}.get(kind, "") + pn
            if kind == "vararg":
              seen_star = True
            if t is not None:
              s += ": " + t
            if hasdef:
              s += " = ..." if t is not None else "=..."
            parts.append(s)
            if kind == "posonly" and k == npos - 1:
              parts.append("/")
          rt = ty(rslot)
          for d in decos:
            lines.append("%s@%s" % (pad, d))
          lines.append("%sdef %s(%s)%s: ..." % (pad, name, ", ".join(parts), " -> " + rt if rt is not None else ""))
        elif e[0] == "class":
          lines.append("%sclass %s%s:" % (pad, e[1], "(%s)" % ", ".join(e[3]) if len(e) > 3 and e[3] else ""))
          sub = emit(e[2], ind + 4)
          lines += sub or [pad + "    pass"]
      if vars_last:
        lines += vlines
      return lines

    body = "\n".join(emit(self.root, 0))
    used = [n for n in ("Any", "Callable", "Literal", "NamedTuple", "Never", "Optional", "TypedDict") if re.search(r"\b%s\b" % n, body)]
    tv = bool(re.search(r"\b_T\b", body))
    head = []
    if re.search(r"\bcollections\.", body):
      head.append("import collections")
    if re.search(r"\bDecimal\b", body):
      head.append("from decimal import Decimal")
    if used or tv:
      head.append("from typing import " + ", ".join(used + (["TypeVar"] if tv else [])))
    if head:
      head.append("")
    if tv:
      head += ["_T = TypeVar('_T')", ""]
    return "\n".join(head) + body + "\n"


def oa_rows(p, k):
  """Strength-2 covering family of k columns over p symbols (p prime).

  k <= p+1: the orthogonal array {(a + b*c mod p | c < p), b}, p*p rows.
  k <= (p+1)^2: product construction, 2*p*p rows.
  """
  if k == 0:
    return [()]
  if k <= p + 1:
    rows = [tuple(((a + b * c) % p) if c < p else b for c in range(k)) for a in range(p) for b in range(p)]
  else:
    assert k <= (p + 1) ** 2, k
    base = oa_rows(p, p + 1)
    rows = [tuple(r[s // (p + 1)] for s in range(k)) for r in base]
    rows += [tuple(r[s % (p + 1)] for s in range(k)) for r in base]
  seen, out = set(), []
  for r in rows:
    if r not in seen:
      seen.add(r)
      out.append(r)
  return out


def gen_stubs(src, types):
  sk = Skel(src)
  seen, out = set(), []
  for k, row in enumerate(oa_rows(len(types), sk.nslots)):
    t = sk.stub(row, types, vars_last=bool(k % 2))
    if t not in seen:
      seen.add(t)
      out.append(t)
  return out, sk.nslots


# ------------------------------------------------------------------ oracle
class V(tuple):
  """(kind, detail, message); kind+detail is the root-cause signature."""

  def __new__(cls, kind, detail, msg):
    return tuple.__new__(cls, (kind, tuple(detail), msg))

  @property
  def sig(self):
    return "%s:%s" % (self[0], "/".join(self[1]))


def _one_line(node):
  return ast.unparse(node).replace("\n", "\\n")[:80]


def import_table(body):
  tab = {}
  for st in body:
    if isinstance(st, ast.Import):
      for a in st.names:
        if a.asname:
          tab[a.asname] = a.name
        else:
          tab[a.name.split(".")[0]] = a.name.split(".")[0]
    elif isinstance(st, ast.ImportFrom) and st.level == 0 and st.module:
      for a in st.names:
        tab[a.asname or a.name] = st.module + "." + a.name
  return tab


def norm(n, tab):
  """Annotation expression -> structure with imported names fully qualified and quotes removed."""
  if isinstance(n, ast.Constant):
    if isinstance(n.value, str):
      try:
        inner = ast.parse(n.value, mode="eval").body
      except SyntaxError:
        return ("const", repr(n.value))
      return norm(inner, tab)
    return ("const", repr(n.value))
  if isinstance(n, ast.Name):
    return ("n", tab.get(n.id, n.id))
  if isinstance(n, ast.Attribute):
    v = norm(n.value, tab)
    if v[0] == "n":
      return ("n", v[1] + "." + n.attr)
    return ("attr", v, n.attr)
  if isinstance(n, ast.Subscript):
    return ("sub", norm(n.value, tab), norm(n.slice, tab))
  if isinstance(n, (ast.Tuple, ast.List)):
    return (type(n).__name__, tuple(norm(e, tab) for e in n.elts))
  if isinstance(n, ast.BinOp) and isinstance(n.op, ast.BitOr):
    return ("or", norm(n.left, tab), norm(n.right, tab))
  return ("raw", ast.dump(n))


_BARE = {"typing.Any": "Any", "typing.Never": "Never", "Any": "Any", "Never": "Never"}


class _Strip(ast.NodeTransformer):
  def visit_arg(self, n):
    n.annotation = None
    return n

  def _fn(self, n):
    self.generic_visit(n)
    n.returns = None
    return n
  visit_FunctionDef = _fn
  visit_AsyncFunctionDef = _fn

  def visit_AnnAssign(self, n):
    self.generic_visit(n)
    if n.value is None:
      n.annotation = ast.Constant(None)
      return n
    return ast.Assign(targets=[n.target], value=n.value, type_comment=None)


def sdump(node):
  return ast.dump(_Strip().visit(copy.deepcopy(node)))


class StubScope:
  def __init__(self):
    self.vars, self.funcs, self.classes = {}, {}, {}


class StubView:
  """The stub as CPython's ast reads it."""

  def __init__(self, text):
    tree = ast.parse(text)
    self.tab = import_table(tree.body)
    self.from_imports = set()
    self.modules = set()
    self.typevars = set()
    for st in tree.body:
      if isinstance(st, ast.Import):
        for a in st.names:
          self.modules.add(a.name)
      elif isinstance(st, ast.ImportFrom) and st.module:
        for a in st.names:
          self.from_imports.add((st.level, st.module, a.name, a.asname))
    self.root = StubScope()
    self._read(tree.body, self.root)

  def _read(self, body, sc):
    for st in body:
      if isinstance(st, ast.AnnAssign) and isinstance(st.target, ast.Name):
        sc.vars.setdefault(st.target.id, []).append(st.annotation)
      elif isinstance(st, (ast.FunctionDef, ast.AsyncFunctionDef)):
        sc.funcs.setdefault(st.name, []).append(st)
      elif isinstance(st, ast.ClassDef):
        self._read(st.body, sc.classes.setdefault(st.name, StubScope()))
      elif isinstance(st, ast.Assign):
        v = st.value
        if isinstance(v, ast.Call) and getattr(v.func, "id", getattr(v.func, "attr", "")) == "TypeVar":
          self.typevars.add(ast.dump(st))
      elif isinstance(st, (ast.If, ast.Try)):
        for fld in ("body", "orelse", "finalbody"):
          self._read(getattr(st, fld, []) or [], sc)

  def scope(self, path):
    sc = self.root
    for p in path:
      sc = sc.classes.get(p)
      if sc is None:
        return None
    return sc

  def declared_in_some_class(self, name):
    def rec(sc):
      return any(name in c.vars or rec(c) for c in sc.classes.values())
    return rec(self.root)


def _all_args(a):
  out = list(a.posonlyargs) + list(a.args)
  if a.vararg:
    out.append(a.vararg)
  out += list(a.kwonlyargs)
  if a.kwarg:
    out.append(a.kwarg)
  return out


class Cmp:
  """Input tree vs merged tree.  Every method returns (violations, events)."""

  def __init__(self, stub, out_tab):
    self.stub = stub
    self.out_tab = out_tab

  # --- one annotation site
  def site(self, kind, scope_kind, where, ia, oa, cands):
    """kind: param / return / var / decl.  cands: the stub's annotations for this definition."""
    out = []
    if ia is not None:
      if oa is None:
        out.append(V("EXISTING", (kind, "removed"), "existing annotation of %s removed (was %s)" % (where, ast.unparse(ia))))
      elif ast.dump(ia) != ast.dump(oa):
        out.append(V("EXISTING", (kind, "changed"), "existing annotation of %s changed from %s to %s" % (
            where, ast.unparse(ia), ast.unparse(oa))))
      else:
        return (), ("kept",)
      return tuple(out), ()
    if oa is None:
      return (), ()
    got = norm(oa, self.out_tab)
    if not cands:
      extra = ()
      if kind == "decl" and self.stub.declared_in_some_class(where.split(" ")[-1]):
        extra = ("name-of-a-class-attribute",)
      out.append(V("NOSTUB", (kind, scope_kind) + extra, "inserted `%s: %s` but the stub gives no annotation for that definition" % (
          where, ast.unparse(oa))))
    elif not any(norm(c, self.stub.tab) == got or norm(c, {}) == norm(oa, {}) for c in cands):
      out.append(V("DIFF", (kind, scope_kind), "inserted annotation of %s is %s but the stub says %s" % (
          where, ast.unparse(oa), " / ".join(ast.unparse(c) for c in cands))))
    if kind in ("return", "var", "decl") and got[0] == "n" and got[1] in _BARE:
      out.append(V("ANYNEVER", ("return" if kind == "return" else "variable",),
                   "bare %s inserted as %s annotation of %s" % (_BARE[got[1]], "return" if kind == "return" else "variable", where)))
    return tuple(out), ("ins_" + kind,)

  def _var_cands(self, path, name):
    if path is None:
      return None
    sc = self.stub.scope(path)
    return None if sc is None else sc.vars.get(name)

  # --- matched statements
  def detail(self, a, b, path, skind):
    vs, ev = (), ()

    def add(r):
      nonlocal vs, ev
      vs, ev = vs + r[0], ev + r[1]
    if isinstance(a, (ast.FunctionDef, ast.AsyncFunctionDef)):
      sc = self.stub.scope(path) if path is not None else None
      defs = (sc.funcs.get(a.name) or []) if sc is not None else []
      q = ".".join((path if path is not None else ("<local>",)) + (a.name,))
      for x, y in zip(_all_args(a.args), _all_args(b.args)):
        cands = [z.annotation for d in defs for z in _all_args(d.args) if z.arg == x.arg and z.annotation is not None]
        add(self.site("param", skind, "%s(%s)" % (q, x.arg), x.annotation, y.annotation, cands))
      add(self.site("return", skind, "%s()" % q, a.returns, b.returns, [d.returns for d in defs if d.returns is not None]))
      for x, y in zip(a.body, b.body):
        add(self.detail(x, y, None, "function"))
      return vs, ev
    if isinstance(a, ast.ClassDef):
      for x, y in zip(a.body, b.body):
        add(self.detail(x, y, None if path is None else path + (a.name,), "class" if path is not None else "function"))
      return vs, ev
    if isinstance(a, (ast.Assign, ast.AnnAssign)):
      ia = a.annotation if isinstance(a, ast.AnnAssign) else None
      oa = b.annotation if isinstance(b, ast.AnnAssign) else None
      t = b.target if isinstance(b, ast.AnnAssign) else b.targets[0]
      name = t.id if isinstance(t, ast.Name) else ast.unparse(t)
      q = ".".join((path if path is not None else ("<local>",)) + (name,))
      return self.site("var", skind, q, ia, oa, self._var_cands(path, name))
    for fld, val in ast.iter_fields(a):
      if isinstance(val, list) and val and isinstance(val[0], ast.AST):
        for x, y in zip(val, getattr(b, fld)):
          if isinstance(x, (ast.stmt, ast.ExceptHandler)) or type(x).__name__ == "match_case":
            add(self.detail(x, y, path, skind))
    return vs, ev

  def match(self, a, o):
    if sdump(a) == sdump(o):
      return self.detail(a, o, (), "module")
    if (isinstance(a, ast.ImportFrom) and isinstance(o, ast.ImportFrom) and a.module == o.module
        and a.level == o.level):
      ia = [(x.name, x.asname) for x in a.names]
      oo = [(x.name, x.asname) for x in o.names]
      if all(x in oo for x in ia):
        return self._imp(o, [x for x in oo if x not in ia])
    return None

  def _imp(self, o, added):
    out = []
    for name, asname in added:
      if isinstance(o, ast.ImportFrom):
        ok = o.module != "__future__" and ((o.level, o.module, name, asname) in self.stub.from_imports
                                           or o.module in self.stub.modules)
        what = "from %s import %s" % (o.module, name)
      else:
        ok = name in self.stub.modules or any(m == name for _, m, _, _ in self.stub.from_imports)
        what = "import %s" % name
      if not ok:
        out.append(V("IMPORT", (o.module if isinstance(o, ast.ImportFrom) else name,),
                     "`%s` was added but the stub has no such import" % what))
    return tuple(out), ("imports",) * len(added)

  def insertable(self, o):
    if isinstance(o, (ast.Import, ast.ImportFrom)):
      return self._imp(o, [(x.name, x.asname) for x in o.names])
    if isinstance(o, ast.Assign) and isinstance(o.value, ast.Call) and \
        getattr(o.value.func, "id", getattr(o.value.func, "attr", "")) == "TypeVar":
      if ast.dump(o) in self.stub.typevars:
        return (), ("typevars",)
      return (V("TYPEVAR", (), "TypeVar assignment `%s` was added but is not in the stub" % ast.unparse(o)),), ("typevars",)
    if isinstance(o, ast.AnnAssign) and o.value is None and isinstance(o.target, ast.Name):
      return self.site("decl", "module", "declaration " + o.target.id, None, o.annotation,
                       self._var_cands((), o.target.id))
    return None

  def align(self, ins, outs):
    """Cheapest explanation of the output's module body as input statements plus insertions."""
    n, m = len(ins), len(outs)

    def cat(x, y):
      return x[0] + y[0], x[1] + y[1]

    @functools.lru_cache(maxsize=None)
    def best(i, j):
      if j == m:
        return tuple(V("STRUCT", ("removed", type(ins[k]).__name__), "statement removed: " + _one_line(ins[k]))
                     for k in range(i, n)), ()
      o = outs[j]
      opts = []
      if i < n:
        mv = self.match(ins[i], o)
        if mv is not None:
          opts.append(cat(mv, best(i + 1, j + 1)))
      iv = self.insertable(o)
      if iv is not None:
        opts.append(cat(iv, best(i, j + 1)))
      if not opts:
        kind = "changed" if (i < n and type(ins[i]) is type(o)) else "added"
        v = V("STRUCT", (kind, type(o).__name__), "statement %s: %s" % (kind, _one_line(o)))
        opts.append(cat(((v,), ()), best(i + (1 if kind == "changed" else 0), j + 1)))
      # fewest violations; among equals prefer the reading in which the input's own statements are intact
      return min(opts, key=lambda t: (len(t[0]), sum(1 for v in t[0] if v[0] in ("EXISTING", "STRUCT"))))
    return best(0, 0)


def _merge(src, pyi):
  boot.load()
  from pytype.tools.merge_pyi import merge_pyi
  return merge_pyi.merge_sources(py=src, pyi=pyi)


def check_pair(src, pyi, out=None):
  """Returns (violations, info, merged text or None).  `out`: a merge result obtained elsewhere (file API)."""
  compile(src, "<input>", "exec")
  try:
    out = _merge(src, pyi) if out is None else out
  except Exception as e:  # pylint: disable=broad-except
    return [V("MERGE-ERROR", (type(e).__name__,), "merge_sources raised %s: %s" % (type(e).__name__, str(e)[:160]))], {}, None
  try:
    compile(out, "<merged>", "exec")
    ot = ast.parse(out)
  except SyntaxError as e:
    return [V("COMPILE", (), "merged source does not compile: %s (line %s)" % (e.msg, e.lineno))], {}, out
  it = ast.parse(src)
  c = Cmp(StubView(pyi), import_table(ot.body))
  bad, events = c.align(it.body, ot.body)
  info = {k: 0 for k in ("ins_param", "ins_return", "ins_var", "ins_decl", "kept", "imports", "typevars")}
  for e in events:
    info[e] += 1
  info["changed"] = int(out != src)
  # de-duplicate identical messages
  seen, res = set(), []
  for v in bad:
    if v not in seen:
      seen.add(v)
      res.append(v)
  return res, info, out


# -------------------------------------------------------------- the file-level entry point
#
# merge_files / merge-pyi -i read and rewrite a file on disk.  Every program of FILE_PROGS is written
# in every encoding of FILE_ENCODINGS, merged in place, and what CPython then reads from the file
# (decoding it the way the compiler does: BOM / coding cookie) is judged by the same oracle.

FILE_PROGS = [
    "def f(a):\n  return a\nx = [1]\n",
    "s = 'gr\u00fc\u00dfe \u2192 \u00e9'\ndef f(a, b='\u00e4'):\n  return a\n",
    "class K:\n  \u00e9tat = 'caf\u00e9'\n  def m(self, p):\n    return p\ny = K().m(1)\n",
]
FILE_STUB = ["def f(a: int) -> int: ...\nx: list[int]\n", "s: str\ndef f(a: int, b: str = ...) -> int: ...\n",
             "class K:\n    \u00e9tat: str\n    def m(self, p: int) -> int: ...\ny: int\n"]
# (name, prefix bytes, cookie line, codec used to encode the body)
FILE_ENCODINGS = [
    ("utf-8", b"", "", "utf-8"),
    ("utf-8-cookie", b"", "# -*- coding: utf-8 -*-\n", "utf-8"),
    ("utf-8-bom", b"\xef\xbb\xbf", "", "utf-8"),
    ("latin-1-cookie", b"", "# -*- coding: latin-1 -*-\n", "latin-1"),
    ("utf-8-bytes-under-latin-1-cookie", b"", "# -*- coding: latin-1 -*-\n", "utf-8"),
]


def _decode_like_cpython(data):
  import io as pyio
  import tokenize
  enc, _ = tokenize.detect_encoding(pyio.BytesIO(data).readline)
  text = data.decode(enc)
  return text[1:] if text.startswith("\ufeff") else text


def check_files():
  """Returns (violations, number of files merged)."""
  import os
  import shutil
  import tempfile
  boot.load()
  from pytype.tools.merge_pyi import merge_pyi
  bad, n = [], 0
  d = tempfile.mkdtemp(prefix="vk_c20_files_")
  try:
    for k, (body, pyi) in enumerate(zip(FILE_PROGS, FILE_STUB)):
      for name, prefix, cookie, codec in FILE_ENCODINGS:
        try:
          data = prefix + (cookie + body).encode(codec)
        except UnicodeEncodeError:
          continue   # this text has no representation in that codec
        py, pyip = os.path.join(d, "m%d.py" % k), os.path.join(d, "m%d.pyi" % k)
        with open(py, "wb") as f:
          f.write(data)
        with open(pyip, "w", encoding="utf-8") as f:
          f.write(pyi)
        try:
          before = _decode_like_cpython(data)
          compile(data, py, "exec")
        except (SyntaxError, UnicodeDecodeError, ValueError):
          continue   # CPython itself cannot read this file
        n += 1
        try:
          merge_pyi.merge_files(py_path=py, pyi_path=pyip, mode=merge_pyi.Mode.OVERWRITE, backup=None)
        except Exception as e:  # pylint: disable=broad-except
          with open(py, "rb") as f:
            if f.read() == data:
              continue   # refused, nothing produced
          bad.append(V("FILE", (name, "partial"), "merge_files raised %s and left a changed file (%s, program %d)" % (type(e).__name__, name, k)))
          continue
        with open(py, "rb") as f:
          after_bytes = f.read()
        try:
          compile(after_bytes, py, "exec")
          after = _decode_like_cpython(after_bytes)
        except (SyntaxError, UnicodeDecodeError, ValueError) as e:
          bad.append(V("FILE", (name, "unreadable"), "after merge_files the %s file (program %d) no longer compiles: %s" % (name, k, str(e)[:100])))
          continue
        vs, _, _ = check_pair(before, pyi, out=after)
        for v in vs:
          bad.append(V("FILE", (name,) + tuple(v[1][:1]), "merge_files on a %s file (program %d): %s" % (name, k, v[2])))
  finally:
    shutil.rmtree(d, ignore_errors=True)
  return bad, n


# -------------------------------------------------------------- minimiser
def _nodes(t):
  return sum(1 for _ in ast.walk(t))


def _stmt_lists(tree):
  """Every statement list in the tree as (owner node, field name)."""
  out = []
  for n in ast.walk(tree):
    for fld in ("body", "orelse", "finalbody"):
      v = getattr(n, fld, None)
      if isinstance(v, list) and v and isinstance(v[0], ast.stmt):
        out.append((n, fld))
  return out


def _variants(tree, is_stub):
  """Smaller variants of one tree (each a fresh deep copy)."""
  # delete one statement
  nl = len(_stmt_lists(tree))
  for li in range(nl):
    owner, fld = _stmt_lists(tree)[li]
    for k in range(len(getattr(owner, fld))):
      t2 = copy.deepcopy(tree)
      o2, f2 = _stmt_lists(t2)[li]
      lst = getattr(o2, f2)
      del lst[k]
      if not lst and f2 == "body" and not isinstance(o2, ast.Module):
        lst.append(ast.Pass())
      yield t2
  # hoist an `if`
  if not is_stub:
    for li in range(nl):
      owner, fld = _stmt_lists(tree)[li]
      for k, st in enumerate(getattr(owner, fld)):
        if isinstance(st, ast.If):
          t2 = copy.deepcopy(tree)
          o2, f2 = _stmt_lists(t2)[li]
          lst = getattr(o2, f2)
          lst[k:k + 1] = lst[k].body + lst[k].orelse
          yield t2
  fns = [n for n in ast.walk(tree) if isinstance(n, (ast.FunctionDef, ast.AsyncFunctionDef))]
  for fi, fn in enumerate(fns):
    def again(t2):
      return [n for n in ast.walk(t2) if isinstance(n, (ast.FunctionDef, ast.AsyncFunctionDef))][fi]
    for ai, a in enumerate(_all_args(fn.args)):
      if a.annotation is not None:
        t2 = copy.deepcopy(tree)
        _all_args(again(t2).args)[ai].annotation = None
        yield t2
    if fn.returns is not None:
      t2 = copy.deepcopy(tree)
      again(t2).returns = None
      yield t2
    for di in range(len(fn.decorator_list)):
      t2 = copy.deepcopy(tree)
      del again(t2).decorator_list[di]
      yield t2
    if not is_stub:
      if isinstance(fn, ast.AsyncFunctionDef):
        t2 = copy.deepcopy(tree)
        f2 = again(t2)
        new = ast.FunctionDef(**{k: getattr(f2, k) for k in f2._fields})
        for owner, fld in _stmt_lists(t2):
          lst = getattr(owner, fld)
          for k, st in enumerate(lst):
            if st is f2:
              lst[k] = new
        yield t2
      if not (len(fn.body) == 1 and isinstance(fn.body[0], ast.Pass)):
        t2 = copy.deepcopy(tree)
        again(t2).body = [ast.Pass()]
        yield t2
      for di in range(len(fn.args.defaults)):
        if not isinstance(fn.args.defaults[di], ast.Constant):
          t2 = copy.deepcopy(tree)
          again(t2).args.defaults[di] = ast.Constant(0)
          yield t2
      for di, d in enumerate(fn.args.kw_defaults):
        if d is not None and not isinstance(d, ast.Constant):
          t2 = copy.deepcopy(tree)
          again(t2).args.kw_defaults[di] = ast.Constant(0)
          yield t2
  if not is_stub:
    def plain(n):
      return (isinstance(n, ast.AnnAssign) and n.value is not None) or (
          isinstance(n, ast.Assign) and len(n.targets) == 1 and isinstance(n.targets[0], ast.Name))
    asg = [n for n in ast.walk(tree) if plain(n)]
    for k, n in enumerate(asg):
      if not (isinstance(n.value, ast.Constant) and n.value.value == 0):
        t2 = copy.deepcopy(tree)
        [x for x in ast.walk(t2) if plain(x)][k].value = ast.Constant(0)
        yield t2
  else:
    # simpler type in one annotation of the stub
    def anns(t):
      out = []
      for n in ast.walk(t):
        if isinstance(n, ast.AnnAssign):
          out.append((n, "annotation"))
        elif isinstance(n, ast.arg) and n.annotation is not None:
          out.append((n, "annotation"))
        elif isinstance(n, (ast.FunctionDef, ast.AsyncFunctionDef)) and n.returns is not None:
          out.append((n, "returns"))
      return out
    for k, (n, fld) in enumerate(anns(tree)):
      for simple in ("int", "list[int]"):
        if ast.unparse(getattr(n, fld)) != simple:
          t2 = copy.deepcopy(tree)
          n2, f2 = anns(t2)[k]
          setattr(n2, f2, ast.parse(simple, mode="eval").body)
          yield t2
    imps = [n for n in tree.body if isinstance(n, ast.ImportFrom)]
    for k, n in enumerate(imps):
      if len(n.names) > 1:
        for j in range(len(n.names)):
          t2 = copy.deepcopy(tree)
          del [x for x in t2.body if isinstance(x, ast.ImportFrom)][k].names[j]
          yield t2


def _joint_variants(st, pt_):
  """Variants that must change program and stub together."""
  # hoist a top-level class out of both
  for k, c in enumerate(st.body):
    if isinstance(c, ast.ClassDef):
      for j, d in enumerate(pt_.body):
        if isinstance(d, ast.ClassDef) and d.name == c.name:
          s2, p2 = copy.deepcopy(st), copy.deepcopy(pt_)
          s2.body[k:k + 1] = [x for x in s2.body[k].body if not isinstance(x, ast.Pass)]
          p2.body[j:j + 1] = [x for x in p2.body[j].body if not isinstance(x, ast.Pass)]
          yield s2, p2
  # drop one parameter from a function and from its namesakes in the stub
  fns = [n for n in ast.walk(st) if isinstance(n, (ast.FunctionDef, ast.AsyncFunctionDef))]

  def drop(args, name):
    hit = False
    for lst in (args.posonlyargs, args.args):
      for i, x in enumerate(lst):
        if x.arg == name:
          pos = args.posonlyargs + args.args
          gi = [id(z) for z in pos].index(id(x))
          di = gi - (len(pos) - len(args.defaults))
          if di >= 0:
            del args.defaults[di]
          del lst[i]
          return True
    for i, x in enumerate(args.kwonlyargs):
      if x.arg == name:
        del args.kwonlyargs[i]
        del args.kw_defaults[i]
        return True
    if args.vararg is not None and args.vararg.arg == name:
      args.vararg = None
      return True
    if args.kwarg is not None and args.kwarg.arg == name:
      args.kwarg = None
      return True
    return hit

  for fi, fn in enumerate(fns):
    for a in _all_args(fn.args):
      s2, p2 = copy.deepcopy(st), copy.deepcopy(pt_)
      f2 = [n for n in ast.walk(s2) if isinstance(n, (ast.FunctionDef, ast.AsyncFunctionDef))][fi]
      drop(f2.args, a.arg)
      for d in ast.walk(p2):
        if isinstance(d, (ast.FunctionDef, ast.AsyncFunctionDef)) and d.name == fn.name:
          drop(d.args, a.arg)
      yield s2, p2


def _rename(st, pt_):
  """Canonical identifiers v0, v1, ... in order of first definition in the program."""
  order = []

  def add(n):
    if n not in order and n not in ("self", "cls", "_") and n not in _SKIP_NAMES:
      order.append(n)
  for n in ast.walk(st):
    if isinstance(n, (ast.FunctionDef, ast.AsyncFunctionDef, ast.ClassDef)):
      add(n.name)
  for n in ast.walk(st):
    if isinstance(n, ast.arg):
      add(n.arg)
    elif isinstance(n, ast.Name) and isinstance(n.ctx, ast.Store):
      add(n.id)
  mp = {n: "v%d" % i for i, n in enumerate(order)}
  if all(k == v for k, v in mp.items()):
    return None
  s2, p2 = copy.deepcopy(st), copy.deepcopy(pt_)
  for t in (s2, p2):
    for n in ast.walk(t):
      if isinstance(n, (ast.FunctionDef, ast.AsyncFunctionDef, ast.ClassDef)) and n.name in mp:
        n.name = mp[n.name]
      elif isinstance(n, ast.arg) and n.arg in mp:
        n.arg = mp[n.arg]
      elif isinstance(n, ast.Name) and n.id in mp:
        n.id = mp[n.id]
  return s2, p2


def _within(src, pyi):
  """Every declaration of the stub is a definition of the program (same scope, same kind)."""
  def ok(ents, sc):
    vs = {e[1] for e in ents if e[0] == "var"}
    fs = {e[1] for e in ents if e[0] == "func"}
    cs = {e[1]: e[2] for e in ents if e[0] == "class"}
    return (set(sc.vars) <= vs and set(sc.funcs) <= fs and set(sc.classes) <= set(cs)
            and all(ok(cs[n], c) for n, c in sc.classes.items()))
  return ok(Skel(src).root, StubView(pyi).root)


def _closed(pyi):
  """Every name the stub's annotations use is a builtin, imported or defined in the stub."""
  import builtins
  tree = ast.parse(pyi)
  known = set(dir(builtins)) | set(import_table(tree.body))
  anns = []
  for n in ast.walk(tree):
    if isinstance(n, ast.ClassDef):
      known.add(n.name)
    elif isinstance(n, ast.Assign):
      known.update(t.id for t in n.targets if isinstance(t, ast.Name))
    elif isinstance(n, ast.AnnAssign):
      anns.append(n.annotation)
    elif isinstance(n, ast.arg) and n.annotation is not None:
      anns.append(n.annotation)
    elif isinstance(n, (ast.FunctionDef, ast.AsyncFunctionDef)) and n.returns is not None:
      anns.append(n.returns)
  return all(x.id in known for a in anns for x in ast.walk(a) if isinstance(x, ast.Name))


def _text(t):
  return ast.unparse(ast.fix_missing_locations(t)) + "\n"


def minimise(src, pyi, sig, budget=200):
  """Greedy reduction of (program, stub) that keeps a violation with signature `sig`."""
  def holds(s, p):
    try:
      compile(s, "<min>", "exec")
      if not _within(s, p) or not _closed(p):
        return False
      bad, _, _ = check_pair(s, p)
    except Exception:  # pylint: disable=broad-except
      return False
    return any(v.sig == sig for v in bad)

  try:
    s0, p0 = _text(ast.parse(src)), _text(ast.parse(pyi))
  except SyntaxError:
    return src, pyi
  if not holds(s0, p0):
    return src, pyi
  cur_s, cur_p = s0, p0
  tries = 0
  progress = True
  while progress and tries < budget:
    progress = False
    st, pt_ = ast.parse(cur_s), ast.parse(cur_p)
    size = (_nodes(st) + _nodes(pt_), len(cur_s) + len(cur_p), cur_s + cur_p)
    cands = []
    cands += ((s2, pt_) for s2 in _variants(st, False))
    cands += ((st, p2) for p2 in _variants(pt_, True))
    cands += list(_joint_variants(st, pt_))
    for s2, p2 in cands:
      try:
        ts, tp = _text(s2), _text(p2)
      except Exception:  # pylint: disable=broad-except
        continue
      if (_nodes(s2) + _nodes(p2), len(ts) + len(tp), ts + tp) >= size:
        continue
      tries += 1
      if holds(ts, tp):
        cur_s, cur_p = ts, tp
        progress = True
        break
      if tries >= budget:
        break
  r = _rename(ast.parse(cur_s), ast.parse(cur_p))
  if r is not None:
    ts, tp = _text(r[0]), _text(r[1])
    if holds(ts, tp):
      cur_s, cur_p = ts, tp
  return cur_s, cur_p


def _infer(src, share):
  return pt.analyze(src, share=share).pyi


def minimise_inferred(spec, sig):
  """Drops items of the program while pytype's own stub for it still shows the violation."""
  def holds(sp):
    try:
      s = render(sp)
      bad, _, _ = check_pair(s, _infer(s, False))
    except Exception:  # pylint: disable=broad-except
      return False
    return any(v.sig == sig for v in bad)
  spec = tuple(tuple(x) for x in spec)
  changed = True
  while changed and len(spec) > 1:
    changed = False
    for k in range(len(spec)):
      sp = spec[:k] + spec[k + 1:]
      if holds(sp):
        spec, changed = sp, True
        break
  return spec


# ------------------------------------------------------------------- work
CHUNK = 25


def _classify(info, bad):
  if bad:
    return "violating"
  if not info.get("changed"):
    return "unchanged"
  parts = []
  if info["ins_param"] or info["ins_return"]:
    parts.append("sig")
  if info["ins_var"]:
    parts.append("var")
  if info["ins_decl"]:
    parts.append("decl")
  if info["typevars"]:
    parts.append("typevar")
  return "annotated:" + "+".join(parts or ["imports-only"])


def work(item):
  if item[0] == "infgroup":
    # several programs with their inferred stubs, one after the other in this (freshly forked) worker
    stats, cands, merged_before = {}, {}, []
    for src, spec in item[1]:
      st, cd = _work_one(("inf", src, spec, 0, None), merged_before)
      for k, v in st.items():
        stats[k] = stats.get(k, 0) + v
      for sig, c in cd.items():
        if sig not in cands or c < cands[sig]:
          cands[sig] = c
    return stats, cands
  return _work_one(item, [])


def _work_one(item, merged_before):
  mode, src, spec, part, types = item
  stats, cands = {}, {}

  def bump(k, n=1):
    stats[k] = stats.get(k, 0) + n

  def one(pyi, origin):
    bad, info, _ = check_pair(src, pyi)
    if bad and origin == "inferred":
      # confirm with a fresh loader
      pyi2 = _infer(src, False)
      bad, info, _ = check_pair(src, pyi2)
      pyi = pyi2
    bump("pairs")
    bump("out:" + ("inferred:" if origin == "inferred" else "") + _classify(info, bad))
    if info.get("ins_param", 0) + info.get("ins_return", 0) + info.get("ins_var", 0) + info.get("ins_decl", 0):
      bump("nontrivial")
    for k in ("ins_param", "ins_return", "ins_var", "ins_decl", "kept", "imports", "typevars"):
      if info.get(k):
        bump(k, info[k])
    for v in bad:
      bump("viol:" + v.sig)
      # merged_before: the stubs this process merged into src before this one (a work item runs in a
      # freshly forked worker, so that is the whole in-process history of the failing merge)
      c = (0 if origin == "gen" else 1, len(src) + len(pyi), src, pyi, v[2], list(spec), list(merged_before))
      if v.sig not in cands or c < cands[v.sig]:
        cands[v.sig] = c
    merged_before.append((src, pyi))

  if mode == "inf":
    try:
      pyi = _infer(src, True)
    except Exception:  # pylint: disable=broad-except
      bump("out:inferred:analysis-exception")
      return stats, cands
    if re.search(r"\bAny\b|\bNever\b", pyi):
      bump("inferred_with_any_never")
    one(pyi, "inferred")
  else:
    stubs, _ = gen_stubs(src, types)
    for pyi in stubs[part * CHUNK:(part + 1) * CHUNK]:
      one(pyi, "gen")
  return stats, cands


def _sigs_after(arg):
  """Signatures violated by the last merge of a sequence of stubs into src (run in a forked child)."""
  pairs = arg
  out = []
  for k, (src, p) in enumerate(pairs):
    bad, _, merged = check_pair(src, p)
    if k == len(pairs) - 1:
      out = [(v.sig, v[2]) for v in bad], merged
  return out


def _min_work(item):
  sig, origin, src, pyi, spec, before = item
  before = [tuple(b) for b in before]
  alone, _ = vrun.isolated(_sigs_after, [(src, pyi)])
  if sig not in [x for x, _ in alone]:
    # the pair is fine on its own: the violation depends on what the process merged earlier
    hist = None
    for b in before:
      got, merged = vrun.isolated(_sigs_after, [b, (src, pyi)])
      if sig in [x for x, _ in got]:
        hist = [b]
        break
    if hist is None:
      got, merged = vrun.isolated(_sigs_after, list(before) + [(src, pyi)])
      if sig not in [x for x, _ in got]:
        raise RuntimeError("violation %s of %r / %r reproduces neither alone nor after its recorded history" % (sig, src, pyi))
      hist = list(before)
    msg = next(m for x, m in got if x == sig)
    return ({"sig": sig, "origin": "after-earlier-merges-in-the-same-process", "src": src, "pyi": pyi,
             "history": [list(h) for h in hist]},
            "after merging %d other (program, stub) pair(s) in the same process: %s" % (len(hist), msg), merged)
  if origin == 0:
    s, p = minimise(src, pyi, sig)
    bad, _, out = check_pair(s, p)
    msg = next(v[2] for v in bad if v.sig == sig)
    return {"sig": sig, "origin": "generated-stub", "src": s, "pyi": p}, msg, out
  if not spec:   # a PS-def program (no item spec to minimise over): reported as is
    p = _infer(src, False)
    bad, _, out = check_pair(src, p)
    msg = next(v[2] for v in bad if v.sig == sig)
    return {"sig": sig, "origin": "inferred-stub", "src": src, "pyi_seen": p}, msg, out
  sp = minimise_inferred(spec, sig)
  s = render(sp)
  p = _infer(s, False)
  bad, _, out = check_pair(s, p)
  msg = next(v[2] for v in bad if v.sig == sig)
  return {"sig": sig, "origin": "inferred-stub", "src": s, "pyi_seen": p}, msg, out


def _files_job(_):
  bad, n = check_files()
  seen, out = set(), []
  for v in bad:
    if v.sig not in seen:
      seen.add(v.sig)
      out.append((v.sig, v[2]))
  return out, n


def _key(case):
  d = {"sig": case["sig"], "src": case["src"], "pyi": case.get("pyi", "<inferred>")}
  if case.get("history"):
    d["history"] = case["history"]
  return vrun.jkey(d)


def collision_programs():
  out = []
  body = ("    def fail(self):\n        raise ValueError()\n    def un(self, a):\n        return a.q\n"
          "    def opt(self, c):\n        return 1 if c else None\n")
  tail = "def g():\n    raise ValueError()\ndef h(a):\n    return a.q\ndef o(c):\n    return 1 if c else None\n"
  for name in ("Any", "Never", "Optional", "Union", "typing"):
    places = {
        "classattr": "class K:\n    %s = 1\n%sclass L:\n%s%s" % (name, body, body, tail),
        "method": "class K:\n    def %s(self):\n        return 1\n%sclass L:\n%s%s" % (name, body, body, tail),
        "modvar": "%s = 1\nclass K:\n%s%s" % (name, body, tail),
        "modfunc": "def %s():\n    return 1\nclass K:\n%s%s" % (name, body, tail),
        "nestedclass": "class K:\n    class %s:\n        pass\n%s%s" % (name, body, tail),
        "classname": "class %s:\n%s%s" % (name, body, tail),
    }
    out += [places[k] for k in sorted(places)]
  return out


def run(rep, tier, seed):
  types = TYPES7 if tier == "quick" else TYPES13
  # thorough: the 13-type covering family (169 rows per program) on the quick program set plus the
  # inferred-stub-only programs of the thorough set (the full thorough set x 169 rows is several hours)
  progs = specs_for("quick")
  if tier != "quick":
    have = {src for _, _, src in progs}
    progs = progs + [("inf", spec, src) for _, spec, src in specs_for("thorough") if src not in have][::4]   # every fourth
  items = []
  nstub = 0
  maxslots = 0
  # depth-1 programs again with typing imports the author wrote but does not use
  extra = []
  for tag, spec, src in progs:
    if tag == "full" and len(spec) == 1 and "import" not in src and "Any" not in src:
      extra.append((tag, [], "from typing import Any, Callable, Optional  # re-exported\nimport typing as t\n" + src))
  progs = progs + (extra if tier != "quick" else extra[::3])
  for tag, spec, src in progs:
    compile(src, "<program>", "exec")
    items.append(("inf", src, spec, 0, None))
    if tag == "full":
      # triples use the 7-type family in every tier (bounded cost)
      ty = TYPES7 if len(spec) >= 2 else types   # the 13-type family on depth-1 programs, the 7-type family above
      stubs, ns = gen_stubs(src, ty)
      maxslots = max(maxslots, ns)
      nstub += len(stubs)
      for part in range((len(stubs) + CHUNK - 1) // CHUNK):
        items.append(("gen", src, spec, part, ty))
  # definition-rich programs (PS-def) with the stub pytype infers for them
  from vk import defspace
  ndef = 0
  for i, src in defspace.programs("quick"):   # thorough: the whole quick PS-def set (the thorough PS-def set is ~10^4 analyses)
    if tier != "quick" or i.startswith(("alone:", "flow:assign<-", "flow:outside<-", "flow:default<-", "flow:initattr<-")):
      items.append(("inf", src, [], 0, None))
      ndef += 1
  # definitions named like the typing names the stub printer needs (Any, Never, Optional ...): the printer then
  # qualifies its own uses (typing.Never), which the merge must treat like the bare names
  ncoll = 0
  for src in collision_programs():
    compile(src, "<program>", "exec")
    items.append(("inf", src, [], 0, None))
    ncoll += 1
  tot, best = {}, {}
  t0 = time.time()
  # everything the workers need is imported before they fork; the generated-stub items each run in a
  # freshly forked worker (maxtasks=1), so that the merges of one item are the whole in-process history
  from pytype.tools.merge_pyi import merge_pyi as _preload  # pylint: disable=unused-import
  import libcst.codemod.visitors  # pylint: disable=unused-import
  gen_items = [it for it in items if it[0] == "gen"]
  inf = [(it[1], it[2]) for it in items if it[0] != "gen"]
  inf_items = [("infgroup", inf[k:k + 24]) for k in range(0, len(inf), 24)]
  for its, mt in ((inf_items, 1), (gen_items, 1)):
    for item, (stats, cands) in vrun.pmap(work, its, seed=seed, chunksize=1, maxtasks=mt):
      for k, v in stats.items():
        tot[k] = tot.get(k, 0) + v
      for sig, c in cands.items():
        if sig not in best or c < best[sig]:
          best[sig] = c
  fbad, nfiles = vrun.isolated(_files_job, None)
  for sig, msg in fbad:
    case = {"sig": sig, "origin": "file-api", "src": "<FILE_PROGS x FILE_ENCODINGS>", "pyi": "<FILE_STUB>"}
    rep.violation(_key(case), "[%s] %s" % (sig, msg), case)
  tot["pairs"] = tot.get("pairs", 0) + nfiles
  rep.outcome("file-api:merged-in-place", nfiles)
  rep.evaluations = tot.get("pairs", 0)
  rep.nontrivial_extra = tot.get("nontrivial", 0)
  for k, v in sorted(tot.items()):
    if k.startswith("out:"):
      rep.outcome(k[4:], v)
  t1 = time.time()
  # one violation per root-cause signature, on its minimised witness
  mins = [(sig, c[0], c[2], c[3], c[5], c[6]) for sig, c in sorted(best.items())]
  done = sorted(((case["sig"], case, msg, out) for _, (case, msg, out) in
                 vrun.pmap(_min_work, mins, seed=seed, chunksize=1, maxtasks=1)), key=lambda t: t[0])
  for sig, case, msg, out in done:
    case["merged"] = out
    case["failing_pairs_in_this_run"] = tot.get("viol:" + sig, 0)
    rep.violation(_key(case), "[%s] %s | program %r stub %r" % (
        sig, msg, case["src"], case.get("pyi", "(the stub pytype infers)")), case)
  rep.cov["wall_enumeration_s"] = round(t1 - t0, 1)
  rep.cov["wall_minimisation_s"] = round(time.time() - t1, 1)
  sample_src = render((("M", "f_pos", "plain", False), ("K", "v_tup", "plain", False)))
  rep.sample({"program": sample_src, "one_generated_stub": gen_stubs(sample_src, types)[0][17]})
  rep.sample({"program": render((("K", "f_all", "class", False),))})
  rep.cov.update({
      "programs": len(progs), "ps_def_programs_with_inferred_stub": ndef, "programs_with_generated_stub_family": sum(1 for t, _, _ in progs if t == "full"),
      "generated_stubs": nstub, "inferred_stubs": len(progs), "max_slots_per_program": maxslots,
      "type_alphabet": [t or "(no annotation)" for t in types],
      "items": len(ITEMS), "inserted_annotations_verified": {k: tot.get(k, 0) for k in ("ins_param", "ins_return", "ins_var", "ins_decl")},
      "existing_annotations_verified_unchanged": tot.get("kept", 0),
      "added_imports_verified": tot.get("imports", 0), "added_typevars_verified": tot.get("typevars", 0),
      "inferred_stubs_mentioning_Any_or_Never": tot.get("inferred_with_any_never", 0),
      "violating_pairs_by_signature": {k[5:]: v for k, v in sorted(tot.items()) if k.startswith("viol:")},
      "bounds": ("tier=%s: depth-1 = every item (%d function forms, %d variable forms) at module level and in a class, "
                 "static/class/property flavours, 4 items in a nested class; depth-2 = all ordered pairs of a core alphabet "
                 "(quick %s; thorough %s) in module/class placements (quick: M+M, M+K, K+K; thorough: M+M, M+K, K+M, K+K, K+L); "
                 "thorough adds depth-3 over %s in 3 placements (7-type family). Each such program x ({stub pytype infers} u "
                 "{strength-2 covering family (orthogonal array, p*p rows; product construction when slots > p+1) over its slots "
                 "= every parameter incl. *args/**kw, every return, every variable, each taking every value of the type alphabet "
                 "or no annotation}). Inferred stub only: all ordered pairs of %s in 3 placements."
                 % (tier, len(FUNCS), len(VARS), CORE_QUICK, CORE_THOROUGH, CORE_TRIPLE,
                    "the thorough core" if tier == "quick" else "all items"))})
  rep.rule = ("one evaluation = one (program, stub) pair merged by merge_sources and compared with the input by the ast oracle; "
              "non-trivial = the merge inserted at least one annotation (so the equality-with-stub and Any/Never rules were exercised)")
  rep.assumptions += [
      "annotation equality is modulo string quoting and import qualification (names resolved through each file's own import table)",
      "an added import counts as a 'typing import the merge added' only if the stub has that import; an added TypeVar assignment only if the stub has it",
      "a module-level bare `name: T` declaration is an annotation of the module-level variable `name`",
      "one VIOLATION per root-cause signature (kind + site kind), reported on the smallest failing pair after greedy minimisation and canonical renaming",
      "run-time validity of inserted annotations is outside the property: a TypeVar bound to a class defined later, or an inserted "
      "annotation whose text equals the stub's but whose typing import the merge did not add (seen for names used only in "
      "keyword-only / positional-only parameter annotations), is not flagged",
  ]


def replay(case):
  boot.load()
  if case.get("origin") == "file-api":
    return [{"key": _key(case), "summary": m} for sig, m in _files_job(None)[0] if sig == case["sig"]][:1]
  src = case["src"]
  pyi = case["pyi"] if "pyi" in case else _infer(src, False)
  for hs, hp in case.get("history") or ():
    check_pair(hs, hp)     # the earlier merges of the same process
  bad, _, _ = check_pair(src, pyi)
  return [{"key": _key(case), "summary": v[2]} for v in bad if v.sig == case["sig"]][:1]
