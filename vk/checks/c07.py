"""C07: the typegraph solver decides binding visibility correctly.

Exhaustive enumeration of typegraph specs within a bound, each built on the
real cfg.Program and queried at every node for every binding subset of size
<= 3; oracle = reference path-enumeration solver in vk/tg.py.
"""

import itertools
import json

from vk import boot, tg, run as vrun

ID = "C07"
LEVEL = "exploration"
ASAN = {}  # ASan build is too slow for this space; C09 thorough runs under ASan


def rgs(b, vmax):
  """Restricted growth strings: assignments of b bindings to <= vmax variables."""
  def rec(prefix, m):
    if len(prefix) == b:
      yield tuple(prefix)
      return
    for x in range(min(m + 1, vmax - 1) + 1):
      yield from rec(prefix + [x], max(m, x))
  if b == 0:
    yield ()
  else:
    yield from rec([0], 0)


def edge_sets(n, cyclic):
  pairs = [(i, j) for i in range(n) for j in range(n)
           if (i != j if cyclic else i < j)]
  for mask in range(1 << len(pairs)):
    es = tuple(p for k, p in enumerate(pairs) if mask >> k & 1)
    yield es


def canon(origins, conds):
  return (tuple(tuple(sorted((node, tuple(sorted(tuple(sorted(ss)) for ss in sss)))
                             for node, sss in ol.items())) for ol in origins),
          tuple(sorted(conds.items())))


def deviations(n, b, origins, conds, allow_cond, max_ss=2, max_ss_size=2):
  """Yield (origins', conds') one deviation away."""
  for i in range(b):
    ol = origins[i]
    for m in range(n):
      if m not in ol:
        o2 = [dict(x) for x in origins]
        o2[i][m] = (frozenset(),)
        yield o2, conds
    for m, sss in ol.items():
      for k, ss in enumerate(sss):
        if len(ss) < max_ss_size:
          for j in range(b):
            if j not in ss:
              new = ss | {j}
              if new in sss:
                continue
              o2 = [dict(x) for x in origins]
              o2[i][m] = tuple(sss[:k]) + (new,) + tuple(sss[k + 1:])
              yield o2, conds
      if len(sss) < max_ss:
        for j in range(b):
          new = frozenset([j])
          if new in sss:
            continue
          o2 = [dict(x) for x in origins]
          o2[i][m] = tuple(sss) + (new,)
          yield o2, conds
  if allow_cond:
    for m in range(n):
      if m not in conds:
        for j in range(b):
          c2 = dict(conds)
          c2[m] = j
          yield origins, c2


def specs_for(item):
  """All specs of one work item: (n, edges, varassign, D, maxcond)."""
  n, edges, vars_, D, maxcond = item
  b = len(vars_)
  for placement in itertools.product(range(n), repeat=b):
    base = [{placement[i]: (frozenset(),)} for i in range(b)]
    seen = {canon(base, {})}
    level = [(base, {})]
    yield base, {}
    for _ in range(D):
      nxt = []
      for origins, conds in level:
        for o2, c2 in deviations(n, b, origins, conds, len(conds) < maxcond):
          k = canon(o2, c2)
          if k not in seen:
            seen.add(k)
            nxt.append((o2, c2))
            yield o2, c2
      level = nxt


def to_spec(n, edges, vars_, origins, conds):
  return {"n": n, "edges": [list(e) for e in edges], "vars": list(vars_),
          "origins": [[[node, [sorted(ss) for ss in sss]] for node, sss in sorted(ol.items())]
                      for ol in origins],
          "conds": {str(k): v for k, v in conds.items()}}


def _perturb_heap(pad):
  """Builds and drops a throw-away typegraph so that the next one is laid out differently in memory.

  The order in which an origin's source sets are visited follows the addresses of the Binding objects
  (std::set<SourceSet> compares element pointers), and freed chunks are reused last-in-first-out, so a
  program built after another one was freed has its bindings at addresses that do not follow creation
  order - the situation of a long-lived worker, reproduced here in a fresh process.
  """
  if not pad:
    return
  cfg = boot.load()
  p = cfg.Program()
  n = p.NewCFGNode("pad")
  vs = [p.NewVariable() for _ in range(pad)]
  for i, v in enumerate(vs):
    for j in range(1 + (i + pad) % 3):
      v.AddBinding("pad%d_%d" % (i, j), [], n)
  del vs, n, p
  import gc
  gc.collect()


def check_spec(spec, kmax=3, stats=None, pad=0):
  """Runs every query on one spec; returns list of violation summaries."""
  _perturb_heap(pad)
  g = tg.build(spec)
  acyclic = tg.is_acyclic(g)
  hascond = bool(g.conds)
  br = tg.back_reach(g)
  b = len(g.vars)
  bad = []
  nq = 0
  ntrue = 0
  for q in range(g.n):
    node = g.nodes[q]
    acc = {}
    for S in tg.subsets(range(b), kmax):
      impl = node.HasCombination([g.bobjs[i] for i in S])
      acc[S] = impl
      nq += 1
      ref = tg.ref_solve(g, q, S, conds=True)
      if ref:
        ntrue += 1
      if acyclic and not hascond:
        if impl != ref:
          bad.append("law(i) acyclic/unconditioned: HasCombination(n%d,%s)=%s reference=%s" % (q, list(S), impl, ref))
      elif ref and not impl:
        bad.append("law(ii) completeness: HasCombination(n%d,%s)=False but an explaining path exists" % (q, list(S)))
      if impl:
        for x in S:
          if not any(o in br[q] for o in g.origins[x]):
            bad.append("law(iii) accepted goal unreachable: HasCombination(n%d,%s)=True but binding %d has no origin backward-reachable from n%d" % (q, list(S), x, q))
            break
      can = node.CanHaveCombination([g.bobjs[i] for i in S])
      truth_can = all(any(o in br[q] for o in g.origins[x]) for x in S)
      if can != truth_can:
        bad.append("CanHaveCombination(n%d,%s)=%s but reachability says %s" % (q, list(S), can, truth_can))
    # subset closure
    for S, v in acc.items():
      if v and len(S) > 1:
        for T in tg.subsets(S, len(S) - 1):
          if not acc[T]:
            bad.append("law(iii) subset closure: n%d accepts %s but rejects %s" % (q, list(S), list(T)))
    # law (iv)
    for vi, vobj in enumerate(g.vobjs):
      mine = [i for i in range(b) if g.vars[i] == vi]
      vis = [i for i in mine if g.bobjs[i].IsVisible(node)]
      for i in mine:
        if (i in vis) != acc[(i,)]:
          bad.append("IsVisible(b%d@n%d)=%s differs from HasCombination=%s" % (i, q, i in vis, acc[(i,)]))
      filt = [bo.data for bo in vobj.Filter(node, True)]
      if filt != ["d%d" % i for i in vis]:
        bad.append("law(iv) Filter(n%d) of v%d = %s but visible = %s" % (q, vi, filt, vis))
      if len(mine) == 1:
        if [bo.data for bo in vobj.Filter(node, False)] != ["d%d" % mine[0]]:
          bad.append("law(iv) non-strict Filter(n%d) of single-binding v%d dropped it" % (q, vi))
      elif [bo.data for bo in vobj.Filter(node, False)] != filt:
        bad.append("law(iv) non-strict Filter differs from strict on multi-binding variable v%d at n%d" % (vi, q))
      pr = set(bo.data for bo in vobj.Bindings(node))
      if not set(filt) <= pr:
        bad.append("law(iv) Bindings(n%d) of v%d = %s lacks visible %s" % (q, vi, sorted(pr), filt))
  if stats is not None:
    stats["queries"] = stats.get("queries", 0) + nq
    stats["ref_true"] = stats.get("ref_true", 0) + ntrue
    cls = ("acyclic" if acyclic else "cyclic") + ("+cond" if hascond else "")
    stats[cls] = stats.get(cls, 0) + 1
    multi = len(set(g.vars)) < b
    if ntrue and multi:
      stats["nontrivial"] = stats.get("nontrivial", 0) + 1
  return bad


def _fresh_only(spec, summary):
  return summary


PADS = (0,)   # heap layouts each graph is built under (thorough: also after a freed throw-away graph)


def _specs_of(item):
  if item[0] == "ss":
    from vk.checks import c08
    yield from c08.ss_specs(item)
    return
  n, edges, vars_, D, maxcond = item
  for origins, conds in specs_for(item):
    yield to_spec(n, edges, vars_, origins, conds)


def work(item):
  stats = {}
  viol = []
  nspec = 0
  for spec in _specs_of(item):
    nspec += 1
    bad = []
    for pad in PADS:
      bad = check_spec(spec, stats=stats, pad=pad)
      if bad:
        break
    if bad and len(viol) < 20:
      viol.append((spec, bad[:3]))
    elif bad:
      stats["more_viol"] = stats.get("more_viol", 0) + 1
  stats["specs"] = nspec
  return stats, viol


def items_for(tier):
  """Work items: (n, edges, varassign, deviation budget D, max conditions)."""
  items = []

  def add(n, b, v, cyclic, D, maxcond, only=None):
    for es in edge_sets(n, cyclic):
      for va in rgs(b, v):
        if only is None or va in only:
          items.append((n, es, va, D, maxcond))
  if tier == "quick":
    add(3, 3, 2, False, 2, 0)    # acyclic, law (i)
    add(3, 2, 2, False, 2, 1)    # acyclic + conditions
    add(3, 2, 2, True, 1, 1)     # cyclic (+conditions)
    add(2, 3, 2, True, 2, 1)
    add(3, 3, 3, True, 2, 1, only=[(0, 1, 2)])  # 3 distinct variables, cyclic, one condition
  else:
    add(3, 3, 3, False, 3, 0)
    add(4, 3, 2, False, 2, 0)
    add(3, 4, 2, False, 2, 0)
    add(3, 3, 2, False, 3, 2)
    add(4, 2, 2, False, 2, 2)
    add(3, 3, 3, True, 2, 2)
    add(3, 2, 2, True, 3, 2)
    add(4, 2, 2, True, 1, 1)
    add(4, 3, 3, False, 2, 1)
  # source-set family (defined with C08, where it drives the query-order phase): 4-node graphs, one origin per
  # binding with any source set of <=2 other bindings, <=1 conditioned node
  from vk.checks import c08
  items += c08.ss_items("quick")   # the thorough family is run by C08 only (measured there); here both tiers use the two-route graphs
  return items


def run(rep, tier, seed):
  global PADS
  PADS = (0,) if tier == "quick" else (0, 3)
  items = items_for(tier)
  tot = {}
  nviol = 0
  for item, (stats, viol) in vrun.pmap(work, items, seed=seed, chunksize=1):
    for k, v in stats.items():
      tot[k] = tot.get(k, 0) + v
    for spec, bad in viol:
      key = vrun.jkey(spec)
      rep.violation(key, bad[0], {"spec": spec, "all": bad})
    if stats["specs"] and len(rep.samples) < 3:
      pass
  rep.evaluations = tot.get("queries", 0)
  rep.nontrivial_extra = tot.get("nontrivial", 0)
  for k in ("acyclic", "acyclic+cond", "cyclic", "cyclic+cond", "ref_true"):
    if tot.get(k):
      rep.outcome(k, tot[k])
  rep.cov.update({"graphs": tot.get("specs", 0), "work_items": len(items), "heap_layouts_per_graph": list(PADS),
                  "bounds": "tier=%s; see vk/checks/c07.py items_for: (nodes, bindings, variables, cyclic, deviations D, max conditions); plus "
                            "the source-set family of vk/checks/c08.py ss_items (4 nodes, 3 bindings, one origin each with any "
                            "source set of <=2 other bindings, <=1 condition)" % tier})
  rep.rule = ("every typegraph = edge subset x binding->variable assignment x one origin per binding x all "
              "<=D deviations (extra origin, extra source-set member, extra source set, node condition); "
              "every node x every binding subset of size<=3 queried via HasCombination/CanHaveCombination/"
              "IsVisible/Filter/Bindings on the real solver; non-trivial = graph with >=2 bindings of one "
              "variable on which the reference accepts at least one query")
  ex = to_spec(3, ((0, 1), (1, 2)), (0, 0, 1), [{0: (frozenset(),)}, {1: (frozenset([0]),)}, {2: (frozenset([1]), frozenset())}], {})
  rep.sample({"spec": ex, "queries": "all nodes x all subsets of {b0,b1,b2}"})
  rep.assumptions += ["reference solver vk/tg.py ref_solve encodes the property statement's explaining-path semantics",
                      "graphs beyond the stated node/binding/deviation bounds are not covered"]


def replay(case):
  # a violation may depend on the memory layout of the bindings (see _perturb_heap): try several
  for pad in range(0, 40):
    bad = check_spec(case["spec"], pad=pad)
    if bad:
      return [{"key": vrun.jkey(case["spec"]), "summary": bad[0] + (" [heap layout %d]" % pad if pad else "")}]
  return []
