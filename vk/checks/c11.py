"""C11: stub optimisation only ever widens types and is idempotent.

Generated declarations (unions of <=3 members of ~33 type forms as constants,
parameters and returns; functions with 1-3 signatures; mutated parameters) are
loaded through the real loader and optimised under every option setting; the
oracle is a finite universe of concrete values and the PEP-484 membership
function (vk/admits.py).
"""

import itertools

from vk import admits as adm, boot, pt, run as vrun

ID = "C11"
LEVEL = "exploration"

FORMS = ["int", "float", "complex", "str", "bytes", "bool", "None", "object", "Any",
         "A", "B", "C", "D",
         "list[int]", "list[str]", "list[A]", "list[B]", "list[Any]", "list[list[int]]", "set[int]",
         "dict[str, int]", "dict[str, str]", "type[A]", "type[B]",
         "tuple[()]", "tuple[int]", "tuple[int, str]", "tuple[str, int]", "tuple[int, ...]", "tuple[str, ...]",
         "Callable[[], int]", "Callable[[int], str]", "Callable[..., Any]"]
# user generics: Sub passes its parameter through, Tagged and Pair re-map their base's parameter
GENERIC_FORMS = ["Box[int]", "Box[str]", "Sub[int]", "Sub[str]", "Tagged[int]", "Tagged[str]", "Pair[int]", "Box[tuple[int, int]]",
                 "IntBox", "IntBox2"]   # bare (non-generic) subclasses of a parametrised generic, one and two levels down
CORE = ["int", "str", "None", "A", "B", "list[int]", "list[str]", "object"]

HEADER = ("from typing import Any, Callable, Generic, Literal, TypeVar, Union, overload\n\n"
          "T = TypeVar('T')\n"
          "class A: ...\nclass B(A): ...\nclass C: ...\nclass D(B): ...\nclass E(A): ...\n"
          "class Box(Generic[T]): ...\nclass Sub(Box[T]): ...\nclass Tagged(Box[int], Generic[T]): ...\n"
          "class Pair(Box[tuple[T, T]]): ...\nclass IntBox(Box[int]): ...\nclass IntBox2(IntBox): ...\n\n")

OPTIONS = [
    ("lossless", dict(lossy=False, use_abcs=False, max_union=7, remove_mutable=False), True),
    ("lossless-nodeps", dict(lossy=False, use_abcs=False, max_union=7, remove_mutable=False), False),
    ("lossy", dict(lossy=True, use_abcs=False, max_union=7, remove_mutable=False), True),
    ("abcs", dict(lossy=False, use_abcs=True, max_union=7, remove_mutable=False), True),
    ("lossy-abcs", dict(lossy=True, use_abcs=True, max_union=7, remove_mutable=False), True),
    ("max0", dict(lossy=False, use_abcs=False, max_union=0, remove_mutable=False), True),
    ("max2", dict(lossy=False, use_abcs=False, max_union=2, remove_mutable=False), True),
    ("max4", dict(lossy=False, use_abcs=False, max_union=4, remove_mutable=False), True),
    ("remove-mutable", dict(lossy=False, use_abcs=False, max_union=7, remove_mutable=True), True),
]


def union_text(ms):
  return ms[0] if len(ms) == 1 else "Union[%s]" % ", ".join(ms)


def modules(tier):
  """Yields (module id, stub text, kind)."""
  decls = []
  forms = FORMS
  for a in forms:
    decls.append("x: %s" % a)
  for a, b in itertools.permutations(forms, 2):
    decls.append("x: Union[%s, %s]" % (a, b))
  for a, b in itertools.permutations(GENERIC_FORMS + ["int", "A"], 2):
    if a in GENERIC_FORMS or b in GENERIC_FORMS:
      decls.append("x: Union[%s, %s]" % (a, b))
  if tier != "quick":
    for a in GENERIC_FORMS:
      for b, c in itertools.combinations(GENERIC_FORMS + ["None", "list[int]"], 2):
        if a not in (b, c):
          decls.append("x: Union[%s, %s, %s]" % (a, b, c))
  tri = forms if tier != "quick" else forms[:13] + ["list[int]", "list[str]", "tuple[int, str]", "tuple[int, ...]", "Callable[[], int]"]
  for c in itertools.combinations(tri, 3):
    decls.append("x: Union[%s]" % ", ".join(c))
  # long unions (collapse at max_union)
  for n in (5, 7, 8, 9):
    decls.append("x: Union[%s]" % ", ".join(forms[:6] + forms[9:9 + n - 6] if n > 6 else forms[:n]))
  # functions
  fdecl = []
  sigs = [(p, r) for p in CORE for r in CORE]
  for p, r in sigs:
    fdecl.append("def f(a: %s) -> %s: ..." % (p, r))
  two = sigs if tier != "quick" else [(p, r) for p in CORE[:5] for r in CORE[:5]]
  for (p1, r1), (p2, r2) in itertools.permutations(two, 2):
    if tier == "quick" and (p1, r1) > (p2, r2):
      continue
    fdecl.append("@overload\ndef f(a: %s) -> %s: ...\n@overload\ndef f(a: %s) -> %s: ..." % (p1, r1, p2, r2))
  three = [(p, r) for p in ("int", "str", "A") for r in ("int", "None", "list[int]")]
  for s3 in itertools.permutations(three, 3):
    if tier == "quick" and not (s3[0] < s3[1] < s3[2]):
      continue
    fdecl.append("\n".join("@overload\ndef f(a: %s) -> %s: ..." % s for s in s3))
  for p, q in itertools.permutations(CORE[:6], 2):
    fdecl.append("@overload\ndef f(a: %s, b: int) -> int: ...\n@overload\ndef f(a: %s) -> int: ..." % (p, q))
    fdecl.append("def f(a: list[%s]) -> None:\n    a = list[Union[%s, %s]]" % (p, p, q))
    fdecl.append("def f(a: Union[%s, %s], *args: %s, **kwargs: %s) -> Union[%s, %s]: ..." % (p, q, p, q, q, p))
  # overloads whose parameter is a union that a hierarchy simplification can collapse onto the other
  # overload's parameter (signatures that only coincide after a pass)
  small = ["int", "bool", "A", "B", "D", "str", "float"]
  for u in itertools.permutations(small, 2):
    for q in small:
      for r1, r2 in (("int", "str"), ("int", "int"), ("A", "B")):
        fdecl.append("@overload\ndef f(a: Union[%s, %s]) -> %s: ...\n@overload\ndef f(a: %s) -> %s: ..." % (u[0], u[1], r1, q, r2))
        if tier != "quick" or u[0] < u[1]:
          fdecl.append("@overload\ndef f(a: %s) -> %s: ...\n@overload\ndef f(a: Union[%s, %s]) -> %s: ..." % (q, r2, u[0], u[1], r1))
  # overloads that share their named parameters but differ in *args / **kwargs / an optional or
  # keyword-only parameter (grouping signatures must not drop the extra call shapes)
  tails = ["", ", *args: int", ", **kwargs: str", ", *args: int, **kwargs: str", ", c: int = ...", ", *, k: int", ", *, k: int = ..."]
  for head in ("a: int", "a: int, b: str"):
    for t1, t2 in itertools.permutations(tails, 2):
      for r1, r2 in (("int", "int"), ("int", "str")):
        fdecl.append("@overload\ndef f(%s%s) -> %s: ...\n@overload\ndef f(%s%s) -> %s: ..." % (head, t1, r1, head, t2, r2))
  for a, b in itertools.permutations(GENERIC_FORMS[:6], 2):
    fdecl.append("def f(a: Union[%s, %s]) -> Union[%s, %s]: ..." % (a, b, b, a))
  # siblings under one base together with members that are neither classes nor containers
  others = ["Literal['x']", "Literal[1]", "T", "None", "Callable[[], int]", "tuple[int, str]", "type[C]"]
  for o in others:
    decls_extra = ["x: Union[B, E, %s]" % o, "x: Union[%s, E, B]" % o, "x: Union[B, %s]" % o, "x: Union[D, E, C, %s]" % o]
    for d in decls_extra:
      if "T" not in d.split("Union")[1].replace("Literal", "").replace("tuple", "").replace("type", ""):
        decls.append(d)
    fdecl.append("def f(a: Union[B, E, %s]) -> Union[E, B, %s]: ..." % (o, o))
    fdecl.append("def f(a: Union[B, E], b: %s) -> Union[B, %s]: ..." % (o, o))
  # methods / class constants
  cdecl = []
  for a, b in itertools.permutations(CORE, 2):
    cdecl.append("class K:\n    y: Union[%s, %s]\n    def m(self, a: %s) -> Union[%s, %s]: ..." % (a, b, a, b, a))
  per = 60
  k = 0
  for group, kind in ((decls, "const"), (fdecl, "func"), (cdecl, "class")):
    for i in range(0, len(group), per):
      chunk = group[i:i + per]
      body = []
      for j, d in enumerate(chunk):
        d = d.replace("x:", "x%d:" % j, 1).replace("def f(", "def f%d(" % j).replace("class K:", "class K%d:" % j)
        body.append(d)
      k += 1
      yield "g%d" % k, HEADER + "\n".join(body) + "\n", kind


# ------------------------------------------------------------------ universe


def universe():
  class A: pass
  class B(A): pass
  class C: pass
  class D(B): pass
  class E(A): pass
  class Box:
    def __init__(self, v):
      self.v = v
    def __vk_view__(self, base):
      return {"Box": [[self.v]]}.get(base)
  class Sub(Box):
    def __vk_view__(self, base):
      return {"Box": [[self.v]], "Sub": [[self.v]]}.get(base)
  class Tagged(Box):   # Tagged(Box[int], Generic[T]): payload is an int, T is the tag
    def __init__(self, v, tag):
      Box.__init__(self, v)
      self.tag = tag
    def __vk_view__(self, base):
      return {"Box": [[self.v]], "Tagged": [[self.tag]]}.get(base)
  class Pair(Box):     # Pair(Box[tuple[T, T]])
    def __vk_view__(self, base):
      return {"Box": [[self.v]], "Pair": [list(self.v)]}.get(base)
  class IntBox(Box):   # IntBox(Box[int]): not generic itself
    def __vk_view__(self, base):
      return {"Box": [[self.v]], "IntBox": [], "IntBox2": []}.get(base)
  class IntBox2(IntBox):
    pass
  ns = {"A": A, "B": B, "C": C, "D": D, "E": E, "Box": Box, "Sub": Sub, "Tagged": Tagged, "Pair": Pair,
        "IntBox": IntBox, "IntBox2": IntBox2}
  vals = [0, 1, True, False, 1.5, 1j, "a", "", b"b", None, object(),
          A(), B(), C(), D(), E(), A, B, C, D, E, int, str, type, "x", "y",
          [], [1], ["a"], [1, "a"], [None], [1.5], [A()], [B()], [C()], [[1]], [["a"]], [[]], [(1, "a")], [True],
          {}, {"k": 1}, {"k": "a"}, {"k": None}, {1: 1}, {"k": [1]},
          (), (1,), ("a",), (1, "a"), ("a", 1), (1, 2), ("a", "b"), (1, 2, 3), (1, "a", 1), (None,), (A(),),
          set(), {1}, {"a"}, {1, "a"}, frozenset([1]),
          (lambda: 0), (lambda a: a), (lambda a, b: a), len,
          Box(1), Box("a"), Box(None), Box((1, 2)), Box(("a", "b")), Sub(1), Sub("a"),
          Tagged(1, 1), Tagged(1, "a"), Tagged(True, None), Pair((1, 2)), Pair(("a", "b")), IntBox(1), IntBox2(2)]
  return ns, vals


_UNI = None


def den(t, names):
  """Indices of universe values admitted by pytd type t."""
  global _UNI
  if _UNI is None:
    _UNI = universe()
  ns, vals = _UNI
  env = adm.Env(ns)
  term = adm.from_pytd(t)
  term = _strip_mod(term, names)
  return frozenset(i for i, v in enumerate(vals) if adm.admits(term, v, env))


def _strip_mod(term, modname):
  k = term[0]
  if k == "cls":
    n = term[1]
    return ("cls", n[len(modname) + 1:] if n.startswith(modname + ".") else n)
  if k == "union":
    return ("union", tuple(_strip_mod(x, modname) for x in term[1]))
  if k == "gen":
    n = term[1]
    return ("gen", n[len(modname) + 1:] if n.startswith(modname + ".") else n, tuple(_strip_mod(x, modname) for x in term[2]))
  if k == "tuple":
    return ("tuple", tuple(_strip_mod(x, modname) for x in term[1]))
  if k in ("vtuple", "type"):
    return (k, _strip_mod(term[1], modname))
  return term


def _has_generic(t):
  from pytype.pytd import pytd
  if isinstance(t, pytd.UnionType):
    return any(_has_generic(x) for x in t.type_list)
  return isinstance(t, pytd.GenericType)


def _nmembers(t):
  from pytype.pytd import pytd
  return len(t.type_list) if isinstance(t, pytd.UnionType) else 1


def check_module(mid, text, optname=None):
  """Returns (violations, stats)."""
  boot.load()
  from pytype import load_pytd
  from pytype.pyi import parser
  from pytype.pytd import optimize, pytd, pytd_utils, visitors
  o = pt.options(module_name=mid)
  ld = load_pytd.create_loader(o)
  po = parser.PyiOptions.from_toplevel_options(o)
  tree = parser.parse_string(text, name=mid, filename=mid + ".pyi", options=po)
  ast = ld.load_file(mid, mid + ".pyi", mod_ast=tree)
  deps = ld.concat_all()
  bad = []
  stats = {"decls": 0, "changed": 0}
  P = pytd_utils.Print
  for name, kw, with_deps in OPTIONS:
    if optname and name != optname:
      continue
    try:
      opt = optimize.Optimize(ast, deps if with_deps else None, **kw)
    except Exception as e:  # pylint: disable=broad-except
      bad.append("[%s] Optimize raised %s: %s" % (name, type(e).__name__, str(e)[:120]))
      continue
    lossless = not kw["lossy"] and not kw["use_abcs"]
    mu = kw["max_union"]
    # constants
    after = {c.name: c for c in opt.constants}
    for c in ast.constants:
      stats["decls"] += 1
      c2 = after.get(c.name)
      if c2 is None:
        bad.append("[%s] constant %s disappeared" % (name, c.name))
        continue
      d1, d2 = den(c.type, mid), den(c2.type, mid)
      if c.type != c2.type:
        stats["changed"] += 1
      if not d1 <= d2:
        bad.append("[%s] %s: %s narrowed to %s" % (name, c.name, P(c.type), P(c2.type)))
      elif lossless and not _has_generic(c.type) and d1 != d2 and not (mu and _nmembers(c.type) > mu) and mu != 0:
        bad.append("[%s] %s: %s widened to %s although no union limit or container merge applies" % (
            name, c.name, P(c.type), P(c2.type)))
    # functions (module level and methods)
    def funcs(unit):
      for f in unit.functions:
        yield f.name, f
      for cl in unit.classes:
        for m in cl.methods:
          yield cl.name + "." + m.name, m
    fa = dict(funcs(opt))
    for fname, f in funcs(ast):
      stats["decls"] += 1
      f2 = fa.get(fname)
      if f2 is None:
        bad.append("[%s] function %s disappeared" % (name, fname))
        continue
      if f != f2:
        stats["changed"] += 1
      for s in f.signatures:
        if not any(_covers(s, r, mid, kw["remove_mutable"]) for r in f2.signatures):
          bad.append("[%s] %s: signature %s is not covered by any of %s" % (
              name, fname, P(s), [P(r) for r in f2.signatures]))
    # class constants
    ca = {cl.name: cl for cl in opt.classes}
    for cl in ast.classes:
      cl2 = ca.get(cl.name)
      if cl2 is None:
        bad.append("[%s] class %s disappeared" % (name, cl.name))
        continue
      a2 = {c.name: c for c in cl2.constants}
      for c in cl.constants:
        stats["decls"] += 1
        if c.name not in a2 or not den(c.type, mid) <= den(a2[c.name].type, mid):
          bad.append("[%s] %s.%s: %s narrowed to %s" % (name, cl.name, c.name, P(c.type),
                                                       P(a2[c.name].type) if c.name in a2 else "<gone>"))
    # idempotence
    try:
      opt2 = optimize.Optimize(opt, deps if with_deps else None, **kw)
    except Exception as e:  # pylint: disable=broad-except
      bad.append("[%s] second Optimize raised %s: %s" % (name, type(e).__name__, str(e)[:120]))
      continue
    if not pytd_utils.ASTeq(opt, opt2) or P(opt) != P(opt2):
      diff = _first_diff(opt, opt2, P)
      bad.append("[%s] not idempotent: %s" % (name, diff))
  return bad, stats


def _covers(s, r, mid, remove_mutable):
  if len(s.params) != len(r.params):
    return False
  for p, q in zip(s.params, r.params):
    if p.name != q.name or p.kind != q.kind:
      return False
    dp = den(p.type, mid)
    if remove_mutable and p.mutated_type is not None:
      pass  # absorbed into the parameter type: still only widens
    if not dp <= den(q.type, mid):
      return False
    if p.mutated_type is not None and q.mutated_type is not None:
      if not den(p.mutated_type, mid) <= den(q.mutated_type, mid):
        return False
  for a, b in ((s.starargs, r.starargs), (s.starstarargs, r.starstarargs)):
    if (a is None) != (b is None):
      return False
    if a is not None and not den(a.type, mid) <= den(b.type, mid):
      return False
  return den(s.return_type, mid) <= den(r.return_type, mid)


def _first_diff(a, b, P):
  for f in ("constants", "functions", "classes"):
    for x, y in zip(getattr(a, f), getattr(b, f)):
      if x != y:
        return "%s -> %s" % (P(x).replace("\n", " / ")[:160], P(y).replace("\n", " / ")[:160])
  return "structure differs"


def work(item):
  mid, text, kind = item
  bad, stats = check_module(mid, text)
  return bad[:8], stats, kind, len(bad)


def run(rep, tier, seed):
  items = list(modules(tier))
  keys = set()
  for (mid, text, kind), (bad, stats, _, nbad) in vrun.pmap(work, items, seed=seed, chunksize=1):
    rep.evaluations += stats["decls"]
    rep.nontrivial_extra += stats["changed"]
    rep.outcome(kind + "-modules")
    rep.outcome("changed-by-optimizer", stats["changed"])
    for b in bad:
      # key on the declaration text so that a different failing declaration is a different violation
      key = vrun.sha(b)
      if key not in keys:
        keys.add(key)
        rep.violation(key, b, {"module": mid, "text": text, "message": b})
  rep.sample({"module_head": items[0][1][:400]})
  rep.sample({"function_module_tail": [x for x in items if x[2] == "func"][0][1][-300:]})
  rep.cov.update({"modules": len(items), "option_settings": [o[0] for o in OPTIONS],
                  "type_forms": len(FORMS), "universe_values": len(universe()[1])})
  rep.rule = ("declaration x option setting; declarations = all unions of <=2 ordered / 3 unordered members over the "
              "type forms as constants, functions with 1-3 signatures over a core, mutated/star parameters, class "
              "members; non-trivial = declarations the optimiser actually changed")
  rep.assumptions += ["den() is evaluated on a finite universe of %d concrete values (vk/checks/c11.py universe)" % len(universe()[1]),
                      "Callable types are compared only as 'callable'"]


def replay(case):
  bad, _ = check_module(case["module"], case["text"])
  out = [b for b in bad if b == case["message"]]
  return [{"key": vrun.sha(b), "summary": b} for b in out[:1]]
