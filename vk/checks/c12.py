"""C12: serialised stubs decode to the same declarations, byte-stably; eq/hash law.

Part 1: every exportable AST (programs, generated stubs, bundled stubs) goes
through pickle_utils.Serialize -> DecodeAst -> SerializeAst/Encode -> ... twice.
Part 2: all ordered pairs over a universe of type nodes: a == b => hash equal
and set-deduplicated.
"""

import itertools

from vk import boot, progspace, pt, run as vrun, stubspace
from vk.checks import c05

ID = "C12"
LEVEL = "exploration"


def _loader():
  from pytype import load_pytd
  o, ld = pt.shared(module_name="m")
  return o, ld


def _undo_module_aliases(ast):
  """Serialisation deliberately rewrites late-type names that go through a module
  alias (`import foo as f` ... `f.Bar` -> `foo.Bar`); the expected value applies the
  same documented normalisation, written independently here."""
  from pytype.pytd import pytd, visitors
  amap = {}
  for a in ast.aliases:
    if isinstance(a.type, pytd.Module):
      local = a.name[len(ast.name) + 1:] if a.name.startswith(ast.name + ".") else a.name
      amap[local] = a.type.module_name
  if not amap:
    return ast

  class V(visitors.Visitor):

    def VisitLateType(self, node):
      parts = node.name.split(".")
      for k in range(len(parts) - 1, 0, -1):
        pre = ".".join(parts[:k])
        if pre in amap:
          return node.Replace(name=amap[pre] + "." + ".".join(parts[k:]))
      return node
  return ast.Visit(V())


def roundtrip(ast, label):
  """Laws for one exportable AST; returns list of violation strings."""
  from pytype.imports import pickle_utils
  from pytype.pytd import pytd_utils, serialize_ast, visitors
  bad = []
  try:
    b1 = pickle_utils.Serialize(ast, src_path="m.py", metadata=["k=v"])
  except Exception as e:  # pylint: disable=broad-except
    return ["%s: Serialize raised %s: %s" % (label, type(e).__name__, str(e)[:150])]
  try:
    d1 = pickle_utils.DecodeAst(b1)
  except Exception as e:  # pylint: disable=broad-except
    return ["%s: DecodeAst raised %s: %s" % (label, type(e).__name__, str(e)[:150])]
  canon = _undo_module_aliases(ast).Visit(visitors.CanonicalOrderingVisitor())
  if not pytd_utils.ASTeq(d1.ast, canon):
    for f in ("constants", "type_params", "classes", "functions", "aliases"):
      if getattr(d1.ast, f) != getattr(canon, f):
        a, b = getattr(canon, f), getattr(d1.ast, f)
        diff = [(x, y) for x, y in zip(a, b) if x != y][:1] or [(len(a), len(b))]
        bad.append("%s: decoded %s differ from the canonically ordered original: %s" % (label, f, str(diff)[:300]))
        break
  if d1.ast.name != ast.name:
    bad.append("%s: decoded module name %r != %r" % (label, d1.ast.name, ast.name))
  if d1.src_path != "m.py" or list(d1.metadata) != ["k=v"]:
    bad.append("%s: src_path/metadata not preserved" % label)
  b2 = pickle_utils.Encode(serialize_ast.SerializeAst(d1.ast, src_path=d1.src_path, metadata=list(d1.metadata)))
  if b2 != b1:
    bad.append("%s: re-encoding the decoded AST gives different bytes (%d vs %d bytes)" % (label, len(b2), len(b1)))
  d2 = pickle_utils.DecodeAst(b2)
  if not pytd_utils.ASTeq(d2.ast, d1.ast):
    bad.append("%s: second decode differs from the first" % label)
  b3 = pickle_utils.Encode(serialize_ast.SerializeAst(d2.ast, src_path=d2.src_path, metadata=list(d2.metadata)))
  if b3 != b2:
    bad.append("%s: third encoding differs from the second" % label)
  if [tuple(x) for x in d1.dependencies] != [tuple(x) for x in d2.dependencies] or \
     [tuple(x) for x in d1.late_dependencies] != [tuple(x) for x in d2.late_dependencies]:
    bad.append("%s: dependency lists changed across the round trip" % label)
  # encoding the same prepared AST twice is byte-identical
  if pickle_utils.Serialize(ast, src_path="m.py", metadata=["k=v"]) != b1:
    bad.append("%s: serialising the same AST twice gives different bytes" % label)
  return bad


def work(item):
  if item[0] == "bundled":
    # SerializeAst clears class pointers in place and pytype caches builtins/typing
    # process-wide, so a bundled AST is serialised in a forked child
    return vrun.isolated(_work, item)
  return _work(item)


def _work(item):
  kind, i, text = item
  boot.load()
  from pytype.pytd import serialize_ast
  o, ld = _loader()
  try:
    if kind == "prog":
      res = pt.analyze(text, share=True)
      ast = serialize_ast.PrepareForExport("m", res.ast, ld)
    elif kind == "stub":
      ast = serialize_ast.SourceToExportableAst("m", text, ld)
    else:  # bundled: SerializeAst clears class pointers in place, so use a throw-away loader
      from pytype import load_pytd
      ast = load_pytd.create_loader(pt.options(module_name="m")).import_name(text)
      if ast is None:
        return ["bundled stub %s did not load" % text], kind
  except Exception as e:  # pylint: disable=broad-except
    # not this property's business (C05/C15 cover parse/analysis failures)
    import os
    if os.environ.get("VERIF_DEBUG"):
      import traceback; traceback.print_exc()
    return [], kind + "-prep-exception:" + type(e).__name__
  return roundtrip(ast, kind)[:3], kind


# ------------------------------------------------------------------ eq/hash law


def type_universe(tier):
  """Builds pytd type nodes: every type form, as NamedType and ClassType trees,
  unions in every member order, Literals."""
  boot.load()
  from pytype.pyi import parser
  from pytype.pytd import pytd, visitors
  exprs = stubspace.type_exprs("quick")
  if tier != "quick":
    exprs = stubspace.type_exprs("thorough")[:700]
  src = stubspace.HEADER + stubspace.CLASS_DEFS + "\n".join("x%d: %s" % (i, e) for i, e in enumerate(exprs)) + "\n"
  tree = parser.parse_string(src, options=c05._po())
  nodes = [c.type for c in tree.constants]
  tree2 = tree.Visit(visitors.NamedTypeToClassType())
  nodes += [c.type for c in tree2.constants]
  out = list(nodes)
  # unions in every member order (<= 3 members), built directly
  members = [pytd.NamedType("int"), pytd.NamedType("str"), pytd.ClassType("int"),
             pytd.GenericType(pytd.NamedType("list"), (pytd.NamedType("int"),)),
             pytd.AnythingType(), pytd.NamedType("NoneType"),
             pytd.Literal(1), pytd.Literal("a"), pytd.TypeParameter("T")]
  for k in (2, 3):
    for combo in itertools.permutations(members[:6] if k == 3 else members, k):
      out.append(pytd.UnionType(combo))
      if k == 2:
        out.append(pytd.IntersectionType(combo))
        out.append(pytd.TupleType(pytd.NamedType("tuple"), combo))
        out.append(pytd.GenericType(pytd.NamedType("dict"), combo))
  # set types built from arguments that are themselves set types (the constructors flatten them): every
  # (member, 2-member set type) in both orders, and pairs of overlapping 2-member set types
  small = members[:4] + [pytd.Literal(1)]
  for cls in (pytd.UnionType, pytd.IntersectionType):
    inner = [cls(c) for c in itertools.permutations(small, 2)]
    for a in small:
      for u in inner:
        out.append(cls((a, u)))
        out.append(cls((u, a)))
    for u in inner[:4]:
      for v in inner:
        out.append(cls((u, v)))
    out.append(cls((small[0], cls((small[0], cls((small[0], small[1])))))))
  for n in list(nodes):
    if isinstance(n, pytd.UnionType) and len(n.type_list) <= 3:
      for perm in itertools.permutations(n.type_list):
        out.append(pytd.UnionType(perm))
  return out


def eqhash(tier):
  nodes = type_universe(tier)
  bad = []
  pairs = eqs = 0
  hashes = [hash(n) for n in nodes]
  for i, a in enumerate(nodes):
    for j, b in enumerate(nodes):
      pairs += 1
      if a == b:
        eqs += 1
        if hashes[i] != hashes[j] or len({a, b}) != 1:
          bad.append((repr(a)[:160], repr(b)[:160]))
  return len(nodes), pairs, eqs, bad


def value_stubs():
  """Stubs whose declarations carry *values* (Literal parameters, __all__ lists) at representation boundaries."""
  out = []
  ints = [0, -1, 2**31, 2**63 - 1, 2**63, 2**64 - 1, 2**64, -2**63, -2**63 - 1, 10**30]
  strs = ["''", "'\\x00'", "'\u00e9'", "'\\u2028'", "'\\''", "'a b'", "b''", "b'\\x00\\xff'"]
  for v in [str(i) for i in ints] + strs:
    out.append("from typing import Literal\nx: Literal[%s]\ndef f(a: Literal[%s] = ...) -> Literal[%s]: ...\n" % (v, v, v))
  lists = ["['a']", "['b']", "['a', 'b']", "[]", "('a',)", "['b', 'a', 'b']"]
  body = "a: int\nb: str\n"
  for first in lists:
    out.append("__all__ = %s\n%s" % (first, body))
    for second in lists:
      out.append("__all__ = %s\n__all__ += %s\n%s" % (first, second, body))
      for third in ("['a']", "['b']"):
        out.append("__all__ = %s\n__all__ += %s\n%s__all__ += %s\n" % (first, second, body, third))
  return out


def run(rep, tier, seed):
  items = [("prog", i, src) for i, src in c05.programs(tier)]
  items += [("stub", i, t) for i, t in stubspace.stubs(tier)]
  items += [("stub", stubspace.sid(t), t) for t in value_stubs()]
  items += [("bundled", m, m) for m in ("builtins", "typing", "collections", "enum", "protocols")]
  for (kind, i, text), (bad, outcome) in vrun.pmap(work, items, seed=seed, progress=5000):
    rep.evaluations += 1
    rep.outcome(outcome)
    rep.nontrivial.add(i)
    if bad:
      rep.violation(i if kind != "bundled" else "bundled-" + i, bad[0], {"kind": kind, "text": text, "all": bad})
  n, pairs, eqs, bad = eqhash(tier)
  rep.evaluations += pairs
  rep.outcome("eq-pairs", eqs)
  rep.outcome("neq-pairs", pairs - eqs)
  seen = set()
  for a, b in bad:
    k = vrun.sha(a + "|" + b)
    if len(seen) < 30:
      seen.add(k)
      rep.violation(k, "a == b but hash(a) != hash(b) or {a, b} keeps both: a=%s b=%s" % (a, b),
                    {"kind": "eqhash", "a": a, "b": b, "tier": tier})
  if len(bad) > 30:
    rep.outcome("eqhash-violating-pairs", len(bad))
  rep.sample({"stub": items[len(items) // 2][2][-200:]})
  rep.sample({"eqhash": "UnionType((int, str)) vs UnionType((str, int))"})
  rep.cov.update({"asts": len(items), "type_nodes": n, "ordered_pairs": pairs, "equal_pairs": eqs})
  rep.rule = ("part 1: every exportable AST (programs via PrepareForExport, generated stubs via SourceToExportableAst, "
              "bundled builtins/typing/collections/enum/protocols) through Serialize/DecodeAst/SerializeAst/Encode twice; "
              "part 2: all ordered pairs of the type-node universe for a == b => hash(a) == hash(b) and len({a,b}) == 1")
  rep.assumptions += ["pytd_utils.ASTeq is the structural equality of record"]


def replay(case):
  boot.load()
  if case["kind"] == "eqhash":
    _, _, _, bad = eqhash(case.get("tier", "quick"))
    for a, b in bad:
      if a == case["a"] and b == case["b"]:
        return [{"key": vrun.sha(a + "|" + b), "summary": "a == b but hashes differ: %s / %s" % (a, b)}]
    return []
  bad, _ = work((case["kind"], None, case["text"]))
  key = case["text"] if case["kind"] == "bundled" else (
      progspace.pid(case["text"]) if case["kind"] == "prog" else stubspace.sid(case["text"]))
  if case["kind"] == "bundled":
    key = "bundled-" + key
  return [{"key": key, "summary": bad[0]}] if bad else []
