"""C01: inferred types admit every value the program computes (loop-free code).

All PS-core programs of the tier are analysed by the real pipeline and executed
under CPython for all four answers of the opaque conditions; every module-level
name, every instance attribute of user-class instances and every result of a
module-level call of a program-defined function is checked against the stub.
"""

import ast as pyast
import re
import types

from vk import admits as adm, boot, defspace, progspace, pt, run as vrun

ID = "C01"
LEVEL = "exploration"

_CALL_RE = re.compile(r"^(\w+) = (\w+)\((.*)\)$")


def _ret_term(stub, fname):
  defs = stub.funcs.get(fname)
  if not defs:
    return None
  return adm.mk_union([adm.from_ast(d.returns, stub.typevars) for d in defs])


def _attr_term(stub, cls, attr):
  """Declared type of attr looked up through the run-time MRO in the stub's classes."""
  for k in cls.__mro__:
    ci = stub.classes.get(k.__name__)
    if ci is None:
      continue
    if attr in ci.consts:
      return adm.from_ast(ci.consts[attr], stub.typevars)
    if attr in ci.funcs or attr in ci.classes:
      return ("callable",) if attr in ci.funcs else adm.ANY
    if attr in ci.aliases:
      return adm.ANY
    if "__getattr__" in ci.funcs:
      return adm.ANY
  if any(k is not object and k.__module__ != "__vk_prog__" for k in cls.__mro__):
    # a library base class (enum.Enum, tuple, ...) may declare it; its stub is not part of the output
    return adm.ANY
  return None


SHARE = False


def check_program(src, seq=None, share=None):
  """Returns (violations [str], info dict)."""
  has_prelude = src.startswith(progspace.PRELUDE)
  info = {}
  try:
    res = pt.analyze(src, share=SHARE if share is None else share)
  except Exception as e:  # pylint: disable=broad-except
    info["outcome"] = "analysis-exception:" + type(e).__name__
    return [], info
  try:
    stub = pt.Stub(res.pyi)
  except SyntaxError as e:
    return ["emitted stub is not valid Python syntax: %s" % e], {"outcome": "bad-stub"}
  bad = []
  completed = 0
  checked = 0
  user_classes = None
  lines = src.split("\n")
  # names bound by import statements are re-exported as imports, not as declarations
  imported = set()
  for node in pyast.walk(pyast.parse(src)):
    if isinstance(node, (pyast.Import, pyast.ImportFrom)):
      imported.update((a.asname or a.name).split(".")[0] for a in node.names)
  for answers in progspace.COND_ANSWERS:
    ns, exc, _ = progspace.execute(src, answers)
    if exc is not None:
      continue
    completed += 1
    env = adm.Env(ns)
    for name, v in ns.items():
      if name.startswith("__") or name == "input" or (has_prelude and name in progspace.PRELUDE_NAMES):
        continue
      if name in imported or name in stub.typevars or isinstance(v, types.ModuleType):
        continue
      checked += 1
      term = None
      if name in stub.consts:
        term = adm.from_ast(stub.consts[name], stub.typevars)
      elif name in stub.funcs:
        term = ("callable",)
      elif name in stub.classes:
        term = ("type", adm.ANY)
      elif name in stub.aliases or name in stub.import_aliases:
        # `n = T` / `from m import T as n`: n is declared as (an alias of) a type
        term = adm.ANY
      if term is None:
        bad.append("answers=%s: module-level name %r (value %r) is missing from the stub" % (answers, name, _short(v)))
        continue
      if not adm.admits(term, v, env):
        bad.append("answers=%s: %s = %s at run time, but the stub says %s" % (
            answers, name, _short(v), _decl(stub, name)))
      # instance attributes of user-class instances
      if type(v).__module__ == "__vk_prog__":
        try:
          inst_attrs = dict(vars(v))
        except TypeError:   # __slots__ instance
          inst_attrs = {a: getattr(v, a) for a in getattr(type(v), "__slots__", ()) if hasattr(v, a)}
        if isinstance(v, type):
          inst_attrs = {}
        for attr, av in inst_attrs.items():
          at = _attr_term(stub, type(v), attr)
          if at is None:
            bad.append("answers=%s: %s.%s = %s at run time, but class %s declares no such attribute" % (
                answers, name, attr, _short(av), type(v).__name__))
          elif not adm.admits(at, av, env):
            bad.append("answers=%s: %s.%s = %s at run time, but class %s (or a base) declares a type that excludes it" % (
                answers, name, attr, _short(av), type(v).__name__))
    # results of module-level calls of program-defined functions: only when the
    # call statement is the last line of the program that assigns its target
    body = lines[len(progspace.PRELUDE.split("\n")) - 1:] if has_prelude else lines
    for k, ln in enumerate(body):
      m2 = _CALL_RE.match(ln)
      if not m2:
        continue
      try:   # the statement must be exactly `name = name(args)` (not e.g. `u = outer()(1)`)
        st = pyast.parse(ln).body[0]
      except SyntaxError:
        continue
      if not (isinstance(st, pyast.Assign) and isinstance(st.value, pyast.Call) and isinstance(st.value.func, pyast.Name)):
        continue
      tgt, fn = m2.group(1), m2.group(2)
      later = "\n".join(body[k + 1:])
      if re.search(r"\b%s\b" % tgt, later) or re.search(r"\bdef %s\b" % fn, later):
        continue
      if tgt in ns and fn in stub.funcs:
        rt = _ret_term(stub, fn)
        if rt is not None and not adm.admits(rt, ns[tgt], env):
          bad.append("answers=%s: call %s(...) returned %s, outside the declared return type of %s" % (
              answers, fn, _short(ns[tgt]), fn))
  info["completed"] = completed
  info["checked"] = checked
  txt = "\n".join(pyast.unparse(a) for n, a in stub.consts.items() if n in ("x", "y") or not has_prelude)
  info["nontrivial"] = bool(re.search(r"Union|Optional|\[|\|", txt))
  info["outcome"] = "ran%d%s" % (completed, "+union/container" if info["nontrivial"] else "+scalar")
  # de-duplicate messages that differ only in the answers
  seen, out = set(), []
  for b in bad:
    k = b.split(": ", 1)[1]
    if k not in seen:
      seen.add(k)
      out.append(b)
  return out, info


def _short(v):
  r = repr(v)
  r = re.sub(r" at 0x[0-9a-f]+", "", r)
  return r if len(r) < 80 else r[:77] + "..."


def _decl(stub, name):
  if name in stub.consts:
    return "%s: %s" % (name, pyast.unparse(stub.consts[name]))
  return "<def/class>"


def minimize(seq):
  """Smallest order-preserving sub-sequence that still violates (greedy single drops)."""
  seq = list(seq)
  changed = True
  while changed and len(seq) > 1:
    changed = False
    for k in range(len(seq)):
      cand = seq[:k] + seq[k + 1:]
      bad, _ = check_program(progspace.program(cand), cand, share=False)
      if bad:
        seq = cand
        changed = True
        break
  return seq


def work(item):
  i, src, seq = item
  bad, info = check_program(src, seq)
  if bad and SHARE:
    bad2, _ = check_program(src, seq, share=False)
    if not bad2:
      info["outcome"] = "differs-with-shared-loader"
      return [], info, None
  if bad and seq is None:   # PS-def program: already small, reported as is
    return bad[:3], info, None
  if bad:
    mseq = minimize(seq)
    msrc = progspace.program(mseq)
    mbad, _ = check_program(msrc, mseq, share=False)
    return (mbad or bad)[:3], info, mseq
  return bad, info, None


def run(rep, tier, seed):
  global SHARE
  SHARE = tier != "thorough"   # quick: one loader per worker process; violations re-checked with a fresh one
  progs = progspace.programs(tier)
  # PS-def: the quick set in both tiers (the thorough tier's budget goes into the 36 k PS-core sequences)
  progs += [(i, src, None) for i, src in defspace.programs("quick")]
  progs += progspace.padded_programs(tier)
  for (i, src, seq), (bad, info, mseq) in vrun.pmap(work, progs, seed=seed, maxtasks=400, progress=2000):
    rep.evaluations += 1
    rep.outcome(info["outcome"])
    if info.get("nontrivial"):
      rep.nontrivial.add(i)
    if bad and seq is None:
      rep.violation(progspace.pid(src), "program %s: %s" % (i, bad[0]), {"src": src, "all": bad, "id": i})
    elif bad:
      msrc = progspace.program(mseq)
      rep.violation(progspace.pid(msrc), "program %s: %s" % (list(mseq), bad[0]),
                    {"src": msrc, "seq": list(mseq), "all": bad, "found_in": list(seq)})
  core = [p for p in progs if p[2] is not None]
  rep.sample({"program_tail": list(core[len(core) // 2][2])})
  rep.sample({"program_tail": list(core[-1][2]), "prelude": "vk/progspace.py PRELUDE"})
  rep.sample({"ps_def_program": progs[-1][1][-300:], "id": progs[-1][0]})
  rep.cov.update({"programs": len(progs), "ps_core_programs": len(core), "ps_def_programs": len(progs) - len(core), "cpython_runs": 4 * len(progs),
                  "bounds": "tier=%s: all single statements over %d W + %d R templates and names x,y; all 2-statement "
                            "sequences (%s)" % (tier, len(progspace.W), len(progspace.R),
                                                "core templates" if tier == "quick" else "all templates") +
                            "; PS-def (vk/defspace.py): every producer alone, every (consumer, producer, value) flow, ordered producer pairs"})
  rep.rule = ("program = fixed prelude + every statement sequence of the tier's bound; each analysed once by "
              "pytype.io.generate_pyi (fresh loader) and executed 4x under CPython (all answers of the two opaque "
              "conditions); non-trivial = stub type of x or y is a union/optional/container")
  rep.assumptions += ["membership oracle vk/admits.py (PEP 484: bool<:int, int->float->complex); unknown class names "
                      "and TypeVars admit everything (can only hide a violation)",
                      "only runs that complete are compared (the property covers programs that run to completion)"]


def replay(case):
  boot.load()
  bad, _ = check_program(case["src"], case.get("seq"))
  return [{"key": progspace.pid(case["src"]), "summary": bad[0]}] if bad else []
