"""C17: boolean-equation terms are built and simplified to logically equivalent terms.

Input enumeration.  Over a universe of nv variables ("~a", "~b", "~c": the "~"
prefix is the ordering convention booleq documents) and nval values ("x", "y",
"z") every term of the bound is built through the PUBLIC constructors
booleq.Eq / booleq.And / booleq.Or and compared with an independent oracle:

 * truth tables: a term is summarised as a bit mask over ALL nval**nv
   assignments.  The expected mask of And(xs) / Or(xs) / Eq(l, r) is computed
   from the plain connectives on the children's expected masks (never from the
   module); the mask of the term the module returned is computed by evaluating
   its structure (_Eq.left/right, _And.exprs, _Or.exprs, TRUE, FALSE) under
   every assignment.  They must be equal.
 * normal form: an _And has >= 2 children, none of them TRUE / FALSE / _And;
   dually for _Or; an _Eq has left > right (so Eq(x, x) must come back as TRUE
   and Eq(l, r) == Eq(r, l)).
 * simplify: for every restriction table (variable -> set of still-possible
   values) and every assignment drawn from it, t.simplify(table) has the truth
   value of t; the result is in normal form; tables containing an empty set
   (nothing is drawn from them) must not make simplify raise.

Levels (DESIGN C17):  atoms = TRUE, FALSE, Eq(var,val), Eq(val,var), Eq(var,var)
(reflexive ones included), de-duplicated by the module's own ==;
level 1 = And/Or of every list of <= 3 atoms; level 2 = And/Or of every list of
<= 2 level-<=1 terms; depth 3 (2 variables x 2 values only) = And/Or of every
binary list with one child from level <= 2 and the other from level <= 1 (both
orders).  Terms are de-duplicated by the module's ==/hash, which is what its own
set operations use, so merged terms have the same futures; that merging is
itself validated (merged terms must have equal truth tables, and the number of
classes must equal the number of structurally distinct terms).

A case (for replay) is {"nv", "nval", "spec", "table"?, "spec2"?} where spec is
["T"] | ["F"] | ["eq", l, r] | ["and", [spec...]] | ["or", [spec...]].
"""

import itertools
import json

from vk import boot, run as vrun

ID = "C17"
LEVEL = "exploration"
NEEDS_EXT = True  # booleq -> pytd_utils -> printer -> base_visitor -> cfg_utils -> cfg

VARS = ("~a", "~b", "~c")
VALS = ("x", "y", "z")
MAXV = 20  # violations kept per work item

_B = None


def B():
  """The module under test (imported lazily, after boot.load())."""
  global _B
  if _B is None:
    boot.load()
    from pytype.pytd import booleq  # pylint: disable=g-import-not-at-top
    _B = booleq
  return _B


class Malformed(Exception):
  pass


class Uni:
  """A universe: variables, values, all assignments, all restriction tables."""

  def __init__(self, nv, nval):
    self.nv, self.nval = nv, nval
    self.vars = VARS[:nv]
    self.vals = VALS[:nval]
    self.assigns = [dict(zip(self.vars, c))
                    for c in itertools.product(self.vals, repeat=nv)]
    self.ALL = (1 << len(self.assigns)) - 1
    names = self.vars + self.vals
    # plain-equality truth tables, by brute force over every assignment; a value
    # name denotes itself, a variable name denotes what the assignment gives it
    self.eqm = {}
    for l in names:
      for r in names:
        m = 0
        for k, s in enumerate(self.assigns):
          if s.get(l, l) == s.get(r, r):
            m |= 1 << k
        self.eqm[(l, r)] = m
    self.tables = self._tables()

  def _tables(self):
    subsets = [frozenset(c) for n in range(self.nval + 1)
               for c in itertools.combinations(self.vals, n)]
    out = []
    for combo in itertools.product(subsets, repeat=self.nv):
      tab = dict(zip(self.vars, combo))
      drawn = 0
      for k, s in enumerate(self.assigns):
        if all(s[v] in tab[v] for v in self.vars):
          drawn |= 1 << k
      out.append((tab, drawn))
    return out

  def witness(self, mask):
    """The first assignment whose bit is set in mask."""
    for k, s in enumerate(self.assigns):
      if mask >> k & 1:
        return s
    return None

  # ------------------------------------------------ reading the module's terms

  def tt(self, t):
    """Truth table of a term of the module, by structural evaluation."""
    b = B()
    if t is b.TRUE:
      return self.ALL
    if t is b.FALSE:
      return 0
    c = t.__class__
    if c is b._Eq:
      try:
        return self.eqm[(t.left, t.right)]
      except (KeyError, TypeError):
        raise Malformed("equality over unknown names: %r" % (t,))
    if c is b._And:
      m = self.ALL
      for e in t.exprs:
        m &= self.tt(e)
      return m
    if c is b._Or:
      m = 0
      for e in t.exprs:
        m |= self.tt(e)
      return m
    raise Malformed("not a boolean term: %r" % (t,))

  def nf(self, t, top=True):
    """None if t is in the documented normal form, else what is wrong."""
    b = B()
    if t is b.TRUE or t is b.FALSE:
      return None if top else "%r appears as a subterm" % (t,)
    c = t.__class__
    if c is b._Eq:
      if not (isinstance(t.left, str) and isinstance(t.right, str)):
        return "equality over non-strings: %r" % (t,)
      if not t.left > t.right:
        return "equality %r does not have left > right" % (t,)
      return None
    if c is b._And or c is b._Or:
      try:
        n = len(t.exprs)
      except TypeError:
        return "%s.exprs is not a sized collection" % c.__name__
      if n < 2:
        return "%s with %d subterm(s)" % (c.__name__, n)
      for e in t.exprs:
        if e is b.TRUE or e is b.FALSE:
          return "%s has the constant %r as a subterm (not absorbed)" % (c.__name__, e)
        if e.__class__ is c:
          return "%s nested directly inside %s (not flattened)" % (c.__name__, c.__name__)
        r = self.nf(e, False)
        if r:
          return r
      return None
    return "not a boolean term of the module: %r" % (t,)

  def fast(self):
    """ev(t) -> truth table; raises Malformed unless t is in normal form."""
    b = B()
    TRUE, FALSE, Eq_, And_, Or_ = b.TRUE, b.FALSE, b._Eq, b._And, b._Or
    ALL, eqm = self.ALL, self.eqm

    def sub(t, c):
      # t is a compound of class c (already known)
      ex = t.exprs
      if len(ex) < 2:
        raise Malformed
      if c is And_:
        m = ALL
        for e in ex:
          ce = e.__class__
          if ce is Eq_:
            l = e.left
            r = e.right
            if not l > r:
              raise Malformed
            m &= eqm[l, r]
          elif ce is Or_:
            m &= sub(e, ce)
          else:
            raise Malformed
        return m
      m = 0
      for e in ex:
        ce = e.__class__
        if ce is Eq_:
          l = e.left
          r = e.right
          if not l > r:
            raise Malformed
          m |= eqm[l, r]
        elif ce is And_:
          m |= sub(e, ce)
        else:
          raise Malformed
      return m

    def ev(t):
      if t is TRUE:
        return ALL
      if t is FALSE:
        return 0
      c = t.__class__
      if c is Eq_:
        l = t.left
        r = t.right
        if not l > r:
          raise Malformed
        return eqm[l, r]
      if c is And_ or c is Or_:
        return sub(t, c)
      raise Malformed
    return ev

  def canon(self, t):
    """Structural identity of a term, independent of the module's ==/hash."""
    b = B()
    if t is b.TRUE:
      return "T"
    if t is b.FALSE:
      return "F"
    c = t.__class__
    if c is b._Eq:
      return "%s=%s" % (t.left, t.right)
    if c is b._And:
      return "&(" + ",".join(sorted(self.canon(e) for e in t.exprs)) + ")"
    if c is b._Or:
      return "|(" + ",".join(sorted(self.canon(e) for e in t.exprs)) + ")"
    raise Malformed("not a boolean term: %r" % (t,))


_UNIS = {}


def uni(nv, nval):
  if (nv, nval) not in _UNIS:
    _UNIS[(nv, nval)] = Uni(nv, nval)
  return _UNIS[(nv, nval)]


# ------------------------------------------------------------------ specs


def show(spec):
  k = spec[0]
  if k == "T":
    return "TRUE"
  if k == "F":
    return "FALSE"
  if k == "eq":
    return "Eq(%r, %r)" % (spec[1], spec[2])
  return "%s([%s])" % ("And" if k == "and" else "Or", ", ".join(show(s) for s in spec[1]))


def show_table(tab):
  return "{" + ", ".join("%s: {%s}" % (v, ",".join(sorted(tab[v]))) for v in sorted(tab)) + "}"


def mkcase(U, spec, table=None, spec2=None):
  case = {"nv": U.nv, "nval": U.nval, "spec": spec}
  if table is not None:
    case["table"] = {v: sorted(table[v]) for v in sorted(table)}
  if spec2 is not None:
    case["spec2"] = spec2
  return case


def _kind(U, t):
  b = B()
  if t is b.TRUE:
    return "TRUE"
  if t is b.FALSE:
    return "FALSE"
  return {b._Eq: "Eq", b._And: "And", b._Or: "Or"}.get(t.__class__, "other")


class _R:
  """repr() that cannot raise (a corrupted term may contain itself)."""

  def __init__(self, x):
    self.x = x

  def __repr__(self):
    try:
      return repr(self.x)
    except Exception as e:  # pylint: disable=broad-except
      return "<%s whose repr raised %s>" % (type(self.x).__name__, type(e).__name__)


def _hashes(kids):
  out = []
  for k in kids:
    try:
      out.append(hash(k))
    except Exception:  # pylint: disable=broad-except
      out.append(None)
  return out


def judge(U, t, exp, what):
  """Compare a built term with its expected truth table and the normal form."""
  bad = []
  try:
    got = U.tt(t)
  except Malformed as e:
    return ["%s returned a malformed term: %s" % (what, e)]
  except RecursionError:
    return ["%s returned a term that contains itself" % what]
  if got != exp:
    s = U.witness(got ^ exp)
    bad.append("%s returned %r, which is %s under %s where the plain connective is %s"
               % (what, _R(t), bool(got & ~exp), s, bool(exp & ~got)))
  e = U.nf(t)
  if e:
    bad.append("%s returned %r, not in normal form: %s" % (what, _R(t), e))
  return bad


def make_eq(U, l, r):
  """Eq(l, r) through the public constructor, checked. -> (term, expected, problems)."""
  b = B()
  exp = U.eqm[(l, r)]
  what = "Eq(%r, %r)" % (l, r)
  try:
    t = b.Eq(l, r)
    t2 = b.Eq(r, l)
  except Exception as e:  # pylint: disable=broad-except
    return None, exp, ["%s raised %s: %s" % (what, type(e).__name__, e)]
  bad = judge(U, t, exp, what)
  if l == r and t is not b.TRUE:
    bad.append("%s is reflexive but came back as %r, not TRUE" % (what, _R(t)))
  try:
    same = (t is t2) or (t == t2 and hash(t) == hash(t2))
  except Exception as e:  # pylint: disable=broad-except
    same = False
  if not same:
    bad.append("%s = %r but Eq(%r, %r) = %r: argument order changes the term" % (what, _R(t), r, l, _R(t2)))
  return t, exp, bad


def make_op(U, op, kids, kmasks, specs=None):
  """And/Or of a list through the public constructor, checked."""
  b = B()
  if op == "and":
    exp = U.ALL
    for m in kmasks:
      exp &= m
    fn = b.And
  else:
    exp = 0
    for m in kmasks:
      exp |= m
    fn = b.Or
  before = _hashes(kids)
  try:
    t = fn(list(kids))
  except Exception as e:  # pylint: disable=broad-except
    what = show([op, specs]) if specs is not None else "%s(%r)" % (op, _R(kids))
    return None, exp, ["%s raised %s: %s" % (what, type(e).__name__, e)]
  if _hashes(kids) != before:
    # the constructor altered one of its operands (terms are shared: every other term holding that operand changed too)
    what = show([op, specs]) if specs is not None else "%s(%r)" % (op, _R(kids))
    i = [a == b for a, b in zip(before, _hashes(kids))].index(False)
    return None, exp, ["%s modified its operand #%d in place (now %r)" % (what, i, _R(kids[i]))]
  # hot path: one traversal gives truth table and normal form together
  try:
    if U.ev(t) == exp:
      return t, exp, ()
  except Exception:  # pylint: disable=broad-except
    pass
  what = show([op, specs]) if specs is not None else "%s(%r)" % (op, _R(kids))
  return t, exp, judge(U, t, exp, what)


def build_spec(U, spec, bad):
  """Build a spec bottom-up through the public constructors, judging every node."""
  b = B()
  k = spec[0]
  if k == "T":
    return b.TRUE, U.ALL
  if k == "F":
    return b.FALSE, 0
  if k == "eq":
    t, exp, p = make_eq(U, spec[1], spec[2])
    bad.extend(p)
    return t, exp
  kids, masks = [], []
  for s in spec[1]:
    t, m = build_spec(U, s, bad)
    if t is None:
      return None, None
    kids.append(t)
    masks.append(m)
  t, exp, p = make_op(U, k, kids, masks, spec[1])
  bad.extend(p)
  return t, exp


def simplify_one(U, t, mt, tab, drawn, spec):
  """One (term, table) pair, slow path with messages. -> (result, problems)."""
  what = "%s.simplify(%s)" % (show(spec), show_table(tab))
  try:
    s = t.simplify(tab)
  except Exception as e:  # pylint: disable=broad-except
    return None, ["%s raised %s: %s" % (what, type(e).__name__, e)]
  try:
    ms = U.tt(s)
  except Malformed as e:
    return s, ["%s returned a malformed term: %s" % (what, e)]
  bad = []
  d = (ms ^ mt) & drawn
  if d:
    a = U.witness(d)
    bad.append("%s returned %r, which is %s under %s (drawn from the table) where the term is %s"
               % (what, _R(s), bool(ms & d & -d), a, bool(mt & d & -d)))
  e = U.nf(s)
  if e:
    bad.append("%s returned %r, not in normal form: %s" % (what, _R(s), e))
  return s, bad


def simplify_all(U, t, mt, spec, stats, viol):
  """t.simplify(table) for every table of the universe."""
  ev = U.ev
  tc = t.__class__
  compound = tc is B()._And or tc is B()._Or
  n0 = len(t.exprs) if compound else 0
  kinds = U.kind_of
  cnt = stats["simp"]
  changed = 0
  for tab, drawn in U.tables:
    try:
      s = t.simplify(tab)
      ms = ev(s)
      ok = not ((ms ^ mt) & drawn)
    except Exception:  # pylint: disable=broad-except
      ok = False
    if not ok:
      s, bad = simplify_one(U, t, mt, tab, drawn, spec)
      if bad:
        stats["nviol"] += 1
        if len(viol) < MAXV:
          viol.append((bad[0], mkcase(U, spec, table=tab)))
        continue
    sc = s.__class__
    k = kinds.get(sc, "other")
    cnt[k] = cnt.get(k, 0) + 1
    if drawn:
      if sc is not tc or (compound and len(s.exprs) != n0):
        changed += 1
    else:
      stats["simp_empty_table"] += 1
  stats["simp_changed"] += changed
  stats["simp_checks"] += len(U.tables)
  # the term itself must not have been altered by simplify
  try:
    again = U.tt(t)
  except Malformed:
    again = None
  if again != mt:
    stats["nviol"] += 1
    if len(viol) < MAXV:
      viol.append(("%s was modified in place by simplify" % show(spec), mkcase(U, spec, table=U.tables[-1][0])))


def prepare(U):
  b = B()
  U.ev = U.fast()
  U.kind_of = {b.TRUE.__class__: "TRUE", b.FALSE.__class__: "FALSE", b._Eq: "Eq",
               b._And: "And", b._Or: "Or"}
  U.pristine = [({v: frozenset(s) for v, s in tab.items()}, d) for tab, d in U.tables]


def tables_intact(U):
  return len(U.tables) == len(U.pristine) and all(
      a[0] == p[0] and all(type(x) is frozenset for x in a[0].values())
      for a, p in zip(U.tables, U.pristine))


def new_stats():
  return {"built": 0, "nviol": 0, "simp_checks": 0, "simp_changed": 0, "simp_empty_table": 0,
          "kinds": {}, "simp": {}}


def add_stats(tot, st):
  for k, v in st.items():
    if isinstance(v, dict):
      d = tot.setdefault(k, {})
      for kk, vv in v.items():
        d[kk] = d.get(kk, 0) + vv
    else:
      tot[k] = tot.get(k, 0) + v


class Store:
  """Distinct terms by the module's own ==/hash, with expected truth table and one spec."""

  def __init__(self):
    self.index = {}
    self.terms = []
    self.masks = []
    self.specs = []

  def add(self, U, t, exp, spec, stats, viol):
    """Returns True if t is new."""
    i = self.index.get(t)
    if i is None:
      self.index[t] = len(self.terms)
      self.terms.append(t)
      self.masks.append(exp)
      self.specs.append(spec() if callable(spec) else spec)
      return True
    if self.masks[i] != exp:
      spec = spec() if callable(spec) else spec
      stats["nviol"] += 1
      if len(viol) < MAXV:
        viol.append(("%s == %s according to the module, but their truth tables differ under %s"
                     % (show(spec), show(self.specs[i]), U.witness(self.masks[i] ^ exp)),
                     mkcase(U, spec, spec2=self.specs[i])))
    return False


def atoms(U, stats, viol):
  """Distinct atoms; every construction (both argument orders) judged."""
  st = Store()
  b = B()
  st.add(U, b.TRUE, U.ALL, ["T"], stats, viol)
  st.add(U, b.FALSE, 0, ["F"], stats, viol)
  stats["built"] += 2
  pairs = ([(v, x) for v in U.vars for x in U.vals] + [(x, v) for v in U.vars for x in U.vals]
           + [(v, w) for v in U.vars for w in U.vars])
  for l, r in pairs:
    spec = ["eq", l, r]
    t, exp, bad = make_eq(U, l, r)
    stats["built"] += 1
    if bad:
      stats["nviol"] += 1
      if len(viol) < MAXV:
        viol.append((bad[0], mkcase(U, spec)))
    if t is None:
      continue
    k = _kind(U, t)
    stats["kinds"][k] = stats["kinds"].get(k, 0) + 1
    try:
      st.add(U, t, exp, spec, stats, viol)
    except Exception as e:  # pylint: disable=broad-except
      stats["nviol"] += 1
      viol.append(("hash/== of %r raised %s" % (_R(t), e), mkcase(U, spec)))
  return st


def lists_level(U, pool, maxlen, stats, viol, into=None):
  """And/Or of every list of <= maxlen members of pool (a Store); returns the Store of results.

  The result store starts from `into` (so it holds level <= n terms).
  """
  st = into if into is not None else Store()
  kinds = stats["kinds"]
  kind_of = U.kind_of
  n = len(pool.terms)
  for op in ("and", "or"):
    for ln in range(maxlen + 1):
      for idx in itertools.product(range(n), repeat=ln):
        kids = [pool.terms[i] for i in idx]
        t, exp, bad = make_op(U, op, kids, [pool.masks[i] for i in idx])
        stats["built"] += 1
        spec = lambda: [op, [pool.specs[i] for i in idx]]  # pylint: disable=cell-var-from-loop
        if bad:
          bad = make_op(U, op, kids, [pool.masks[i] for i in idx], spec()[1])[2] or bad
          stats["nviol"] += 1
          if len(viol) < MAXV:
            viol.append((bad[0], mkcase(U, spec())))
        if t is None:
          continue
        k = kind_of.get(t.__class__, "other")
        kinds[k] = kinds.get(k, 0) + 1
        try:
          st.add(U, t, exp, spec, stats, viol)
        except Exception as e:  # pylint: disable=broad-except
          stats["nviol"] += 1
          if len(viol) < MAXV:
            viol.append(("hash/== of %r raised %s" % (_R(t), e), mkcase(U, spec())))
  return st


# ------------------------------------------------------------------ workers

_CTX = {}   # set in the parent before the pool forks
_VIOL = []  # (summary, case) gathered by the parent; reported smallest case first
_CORRUPT = []  # set in a worker once a constructor modified a pooled operand in place


def work(item):
  """One work item.

  ("pair", uid, i, simp): every binary list over pool[uid] whose lowest-index member is i
      ([Ti,Tj] and [Tj,Ti] for j > i, and [Ti,Ti]), And and Or.
  ("cross", uid, i, simp): binary lists [Xi, Y] and [Y, Xi] for every Y in the small pool.
  ("simp", uid, lo, hi): simplify every stored term with index in [lo, hi) against every table.
  """
  kind, uid = item[0], item[1]
  U = uni(*uid)
  stats = new_stats()
  viol = []
  keys = []
  if _CORRUPT:   # this process's copy of the shared pool was altered by a constructor (already reported)
    stats["skipped_after_corruption"] = 1
    return stats, viol, keys
  if kind == "simp":
    st = _CTX[uid, "store"]
    for i in range(item[2], item[3]):
      simplify_all(U, st.terms[i], st.masks[i], st.specs[i], stats, viol)
  else:
    i, simp = item[2], item[3]
    if kind == "pair":
      big = small = _CTX[uid, "pool"]
      others = range(i, len(small.terms))
    else:
      big, small = _CTX[uid, "big"], _CTX[uid, "pool"]
      others = range(len(small.terms))
    a, ma = big.terms[i], big.masks[i]
    local = Store()
    kinds = stats["kinds"]
    kind_of = U.kind_of
    canon = U.canon
    for j in others:
      c, mc = small.terms[j], small.masks[j]
      orders = (((a, c), (ma, mc), False),) if (kind == "pair" and j == i) else \
               (((a, c), (ma, mc), False), ((c, a), (mc, ma), True))
      for kids, masks, swapped in orders:
        for op in ("and", "or"):
          t, exp, bad = make_op(U, op, kids, masks)
          stats["built"] += 1
          def spec():  # pylint: disable=cell-var-from-loop
            sa, sc = big.specs[i], small.specs[j]
            return [op, [sc, sa] if swapped else [sa, sc]]
          if bad:
            bad = make_op(U, op, kids, masks, spec()[1])[2] or bad
            stats["nviol"] += 1
            if len(viol) < MAXV:
              viol.append((bad[0], mkcase(U, spec())))
            if "modified its operand" in bad[0]:
              # shared operands are now corrupted: nothing further in this process is meaningful
              stats["local_distinct"] = len(local.terms)
              _CORRUPT.append(bad[0])
              return stats, viol, keys
          if t is None:
            continue
          k = kind_of.get(t.__class__, "other")
          kinds[k] = kinds.get(k, 0) + 1
          try:
            new = local.add(U, t, exp, spec, stats, viol)
          except Exception as e:  # pylint: disable=broad-except
            stats["nviol"] += 1
            if len(viol) < MAXV:
              viol.append(("hash/== of %r raised %s" % (_R(t), e), mkcase(U, spec())))
            continue
          if new:
            try:
              keys.append(canon(t))
            except Malformed:
              pass
    if simp:
      for x in range(len(local.terms)):
        simplify_all(U, local.terms[x], local.masks[x], local.specs[x], stats, viol)
    stats["local_distinct"] = len(local.terms)
  if not tables_intact(U):
    stats["nviol"] += 1
    viol.append(("simplify modified the table it was given", mkcase(U, ["T"], table=U.pristine[-1][0])))
    U.tables = U._tables()
  return stats, viol, keys


# ------------------------------------------------------------------ driver


def _dedup_audit(U, store, rep, label):
  """The module's ==/hash classes must be exactly the structurally distinct terms."""
  try:
    c = len({U.canon(t) for t in store.terms})
  except Malformed:
    return
  if c != len(store.terms):
    rep.cap("%s: %d classes under the module's ==/hash but %d structurally distinct terms; "
            "de-duplication is not structural identity" % (label, len(store.terms), c))


def plan(tier):
  """(universe, what) in the order they are run."""
  if tier == "quick":
    return {"u33": {"l2_simplify": False}, "u22": {"depth3": False}}
  return {"u33": {"l2_simplify": True}, "u22": {"depth3": True}}


def run_universe(rep, U, seed, tot, l2_simplify, depth3, label):
  prepare(U)
  uid = (U.nv, U.nval)
  stats = new_stats()
  viol = []
  at = atoms(U, stats, viol)
  n_atoms = len(at.terms)
  # level 1: lists of <= 3 atoms.  The store is seeded with the atoms: level <= 1.
  l1 = Store()
  for t, m, s in zip(at.terms, at.masks, at.specs):
    l1.add(U, t, m, s, stats, viol)
  lists_level(U, at, 3, stats, viol, into=l1)
  _dedup_audit(U, l1, rep, label + " level<=1")
  n_l1 = len(l1.terms)
  # level 2, lists of length 0 and 1 over level <= 1 (results are TRUE/FALSE/the term itself)
  l2small = Store()
  lists_level(U, l1, 1, stats, viol, into=l2small)
  add_stats(tot, stats)
  for summ, case in viol:
    _VIOL.append((summ, case))
  if viol:
    # broken constructors make deeper levels meaningless (and corrupted shared operands can make them explode)
    rep.cap("%s: stopped after level<=1 because violations were found there" % label)
    info = {"variables": list(U.vars), "values": list(U.vals), "distinct_atoms": n_atoms, "distinct_level<=1": n_l1,
            "distinct_level<=2": 0, "simplify_on": "none (stopped)"}
    rep.cov.setdefault("universes", {})[label] = info
    return info
  # simplify on level <= 1, every table
  _CTX[uid, "store"] = l1
  _CTX[uid, "pool"] = l1
  step = max(1, n_l1 // 64)
  items = [("simp", uid, lo, min(n_l1, lo + step)) for lo in range(0, n_l1, step)]
  # level 2, binary lists, partitioned by lowest-index member
  items += [("pair", uid, i, l2_simplify) for i in range(n_l1)]
  l2keys = set()
  for t in l2small.terms:
    l2keys.add(U.canon(t))
  local_sum = 0
  for item, (st, vi, keys) in vrun.pmap(work, items, seed=seed, chunksize=1):
    add_stats(tot, st)
    local_sum += st.get("local_distinct", 0)
    l2keys.update(keys)
    for summ, case in vi:
      _VIOL.append((summ, case))
    if len(_VIOL) >= 200:
      rep.cap("%s: stopped dispatching level-2 work after 200 violations" % label)
      break
  info = {"variables": list(U.vars), "values": list(U.vals), "assignments": len(U.assigns),
          "tables": len(U.tables), "tables_nonempty": sum(1 for _, d in U.tables if d),
          "distinct_atoms": n_atoms, "distinct_level<=1": n_l1, "distinct_level<=2": len(l2keys),
          "simplify_on": "level<=2" if l2_simplify else "level<=1"}
  if depth3:
    # needs the level <= 2 terms as objects: rebuild them here (small universe only)
    st3 = new_stats()
    v3 = []
    l2 = Store()
    for t, m, s in zip(l1.terms, l1.masks, l1.specs):
      l2.add(U, t, m, s, st3, v3)
    lists_level(U, l1, 2, st3, v3, into=l2)
    _dedup_audit(U, l2, rep, label + " level<=2")
    if len(l2.terms) != len(l2keys):
      rep.cap("%s: level<=2 rebuilt with %d terms but workers reported %d" % (label, len(l2.terms), len(l2keys)))
    # the binary level-2 lists were already counted by the workers; count only what is new here
    st3["built"] = 0
    st3["kinds"] = {}
    add_stats(tot, st3)
    for summ, case in v3:
      _VIOL.append((summ, case))
    _CTX[uid, "big"] = l2
    # level<=1 members of l2 come first (it was seeded with them); their binary lists are level 2, done above
    items = [("cross", uid, i, True) for i in range(n_l1, len(l2.terms))]
    l3keys = set(l2keys)
    for item, (st, vi, keys) in vrun.pmap(work, items, seed=seed):
      add_stats(tot, st)
      l3keys.update(keys)
      for summ, case in vi:
        _VIOL.append((summ, case))
    info["distinct_depth<=3"] = len(l3keys)
    info["simplify_on"] = "depth<=3"
  rep.cov.setdefault("universes", {})[label] = info
  return info


def run(rep, tier, seed):
  B()
  del _VIOL[:]
  tot = new_stats()
  p = plan(tier)
  i33 = run_universe(rep, uni(3, 3), seed, tot, p["u33"]["l2_simplify"], False, "3x3")
  # 2 variables x 2 values: levels <= 2 with simplify on everything; thorough adds depth 3
  i22 = run_universe(rep, uni(2, 2), seed, tot, True, p["u22"]["depth3"], "2x2")
  seen = set()
  ordered = []
  for summ, case in _VIOL:
    key = vrun.jkey(case)
    if key not in seen:
      seen.add(key)
      ordered.append((len(json.dumps(case, sort_keys=True)), key, summ, case))
  ordered.sort(key=lambda x: x[:2])
  for _, key, summ, case in ordered[:200]:
    rep.violation(key, summ, case)
  rep.evaluations = tot["built"] + tot["simp_checks"]
  compound = tot["kinds"].get("And", 0) + tot["kinds"].get("Or", 0)
  rep.nontrivial_extra = (i33["distinct_level<=2"] + i22.get("distinct_depth<=3", i22["distinct_level<=2"])
                          + tot["simp_changed"])
  for k, v in sorted(tot["kinds"].items()):
    rep.outcome("build->" + k, v)
  for k, v in sorted(tot["simp"].items()):
    rep.outcome("simplify->" + k, v)
  rep.outcome("simplify_changed_top_level", tot["simp_changed"])
  rep.outcome("simplify_table_with_empty_set", tot["simp_empty_table"])
  if tot["nviol"]:
    rep.outcome("violating_cases", tot["nviol"])
  rep.cov.update({
      "constructions": tot["built"], "constructions_compound_result": compound,
      "simplify_checks": tot["simp_checks"],
      "bounds": {
          "tier": tier,
          "3x3": "atoms (both argument orders); level1 = And/Or of all lists of <=3 atoms; level2 = And/Or of all "
                 "lists of <=2 level<=1 terms; all 27 assignments; all 512 tables (343 without an empty set); "
                 "simplify on " + i33["simplify_on"],
          "2x2": "same levels; all 4 assignments; all 16 tables (9 without an empty set); simplify on every term"
                 + ("; depth 3 = And/Or of every binary list with one child from level<=2 and one from level<=1"
                    if p["u22"]["depth3"] else ""),
      },
  })
  rep.rule = ("evaluation = one call of Eq/And/Or on a list of already-verified terms (truth table over all "
              "assignments compared with the plain connective on the children's expected tables, plus normal form), or "
              "one term.simplify(table) (truth table compared on every assignment drawn from the table, plus normal "
              "form); non-trivial = distinct (module ==) terms of the deepest level plus (term, table) pairs "
              "whose simplification changed the top-level class or arity")
  rep.sample({"build": "Or([And([Eq('~a', 'x'), Eq('~b', '~a')]), Eq('x', '~c')])",
              "expected": "truth table of (a=x and b=a) or c=x over all 27 assignments"})
  rep.sample({"simplify": "And([Eq('~a', 'x'), Or([Eq('~b', 'y'), Eq('~a', '~c')])])",
              "table": "{~a: {x,y}, ~b: {x,z}, ~c: {x}}",
              "expected": "same truth value on the 4 assignments drawn from the table"})
  rep.assumptions += [
      "a term's meaning is read off its structure: _Eq(left,right) holds iff both sides denote the same value "
      "(a variable denotes its assigned value, any other name denotes itself); _And/_Or are all/any over .exprs",
      "terms are merged under the module's own ==/hash; merged terms are required to have equal truth tables and "
      "the number of classes is compared with the number of structurally distinct terms",
      "equalities between two values are outside the property's quantifier and are not built",
      "depth 3 is covered over 2 variables x 2 values only, with one child from level<=1 (thorough tier)",
  ]


def replay(case):
  B()
  U = uni(case["nv"], case["nval"])
  prepare(U)
  bad = []
  t, exp = build_spec(U, case["spec"], bad)
  if t is not None:
    try:
      hash(t)
      t == t  # pylint: disable=pointless-statement
    except Exception as e:  # pylint: disable=broad-except
      bad.append("hash/== of %r raised %s" % (t, e))
  if not bad and t is not None and case.get("spec2") is not None:
    t2, exp2 = build_spec(U, case["spec2"], bad)
    if not bad and t2 is not None and t == t2 and exp != exp2:
      bad.append("%s == %s according to the module, but their truth tables differ under %s"
                 % (show(case["spec"]), show(case["spec2"]), U.witness(exp ^ exp2)))
  if not bad and t is not None and case.get("table") is not None:
    tab = {v: frozenset(x) for v, x in case["table"].items()}
    drawn = 0
    for k, s in enumerate(U.assigns):
      if all(s[v] in tab[v] for v in U.vars):
        drawn |= 1 << k
    keep = dict(tab)
    _, p = simplify_one(U, t, exp, tab, drawn, case["spec"])
    bad.extend(p)
    if tab != keep:
      bad.append("simplify modified the table it was given")
    if not bad:
      # the in-place / table-mutation findings need the whole table sweep
      st, vi = new_stats(), []
      simplify_all(U, t, exp, case["spec"], st, vi)
      bad.extend(s for s, _ in vi)
      if not tables_intact(U):
        bad.append("simplify modified the table it was given")
  return [{"key": vrun.jkey(case), "summary": bad[0]}] if bad else []
