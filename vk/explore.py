"""Explicit-state exploration over a real, non-copyable implementation object.

A state is represented by a history (tuple of operations) that reaches it; the
live object is rebuilt from scratch for every transition (C++ objects cannot be
copied).  States are de-duplicated on a canonical key supplied by the model
(with its own soundness argument).  The search is level-synchronous BFS so a
level's expansions can be spread over worker processes; the verdict does not
depend on the distribution.
"""

from vk import run as vrun


class Model:
  """Interface a check implements.

  build(hist) -> obj            rebuild the real object by replaying hist
  enabled(obj, hist) -> [op]    finite menu of next operations
  apply(obj, op)                perform op on the live object (real code)
  canon(obj, hist) -> hashable  canonical state key
  check(obj, hist) -> [(key, summary)]  invariant on the state; [] if it holds
  """


_MODEL = None


def _expand(hist):
  m = _MODEL
  obj = m.build(hist)
  ops = m.enabled(obj, hist)
  out = []
  first = True
  for op in ops:
    if not first:
      obj = m.build(hist)
    first = False
    m.apply(obj, op)
    h2 = hist + (op,)
    viol = m.check(obj, h2)
    out.append((op, m.canon(obj, h2), viol))
  return out


def bfs(model, inits, max_depth, rep, seed=0, procs=None, max_states=None,
        label="", pool=None):
  """Explore all histories up to max_depth operations from every init history.

  Returns (states, transitions, per-level state counts).
  """
  global _MODEL
  _MODEL = model
  own = pool is None
  if own:
    pool = vrun.Pool(_expand, procs=procs)
  try:
    return _bfs(model, inits, max_depth, rep, seed, max_states, label, pool)
  finally:
    if own:
      pool.close()


def set_model(model):
  """For callers that share one pool over several bfs() calls (same model object)."""
  global _MODEL
  _MODEL = model


def _bfs(model, inits, max_depth, rep, seed, max_states, label, pool):
  seen = {}
  frontier = []
  for h in inits:
    h = tuple(h)
    obj = model.build(h)
    for key, summ in model.check(obj, h):
      rep.violation(key, summ, {"history": list(h), "label": label})
    k = model.canon(obj, h)
    if k not in seen:
      seen[k] = h
      frontier.append(h)
  transitions = 0
  levels = [len(frontier)]
  depth = 0
  while frontier and depth < max_depth:
    nxt = []
    for hist, outs in pool.map(frontier, seed=seed, serial_below=48):
      for op, key, viol in outs:
        transitions += 1
        h2 = hist + (op,)
        for vkey, summ in viol:
          rep.violation(vkey, summ, {"history": list(h2), "label": label})
        if key not in seen:
          seen[key] = h2
          nxt.append(h2)
    depth += 1
    # deterministic order independent of worker scheduling
    nxt.sort(key=repr)
    if max_states and len(seen) > max_states:
      rep.cap("%s: state cap %d hit at depth %d" % (label, max_states, depth))
      break
    frontier = nxt
    levels.append(len(nxt))
  return len(seen), transitions, levels
