"""Typegraph specs, builder on the real cfg.Program, and the reference solver.

Spec (JSON-able):
  n       number of nodes
  edges   list of [a, b]  (a -> b)
  vars    vars[i] = variable index of binding i
  origins origins[i] = list of [node, [source_set, ...]], source_set = sorted list of binding idx
  conds   dict node(str) -> binding idx
"""

import itertools

from vk import boot


class G:
  """A spec in fast form + the live objects."""
  __slots__ = ("n", "edges", "vars", "origins", "conds", "preds", "vnodes",
               "prog", "nodes", "vobjs", "bobjs", "memo")


def freeze(spec):
  g = G()
  g.n = spec["n"]
  g.edges = [tuple(e) for e in spec["edges"]]
  g.vars = list(spec["vars"])
  g.origins = []
  for ol in spec["origins"]:
    d = {}
    for node, sss in ol:
      d.setdefault(node, set()).update(frozenset(ss) for ss in sss)
    g.origins.append({k: frozenset(v) for k, v in d.items()})
  g.conds = {int(k): v for k, v in spec.get("conds", {}).items()}
  g.preds = [[] for _ in range(g.n)]
  for a, b in g.edges:
    if a != b and a not in g.preds[b]:
      g.preds[b].append(a)
  nv = (max(g.vars) + 1) if g.vars else 0
  g.vnodes = [set() for _ in range(nv)]
  for i, od in enumerate(g.origins):
    g.vnodes[g.vars[i]].update(od.keys())
  g.memo = {}
  return g


def build(spec, g=None):
  """Builds the real typegraph for a spec through the public Python API."""
  cfg = boot.load()
  g = g or freeze(spec)
  p = cfg.Program()
  nodes = [p.NewCFGNode("n%d" % i) for i in range(g.n)]
  for a, b in g.edges:
    nodes[a].ConnectTo(nodes[b])
  nv = len(g.vnodes)
  vobjs = [p.NewVariable() for _ in range(nv)]
  bobjs = []
  for i, v in enumerate(g.vars):
    bobjs.append(vobjs[v].AddBinding("d%d" % i))
  for i, ol in enumerate(spec["origins"]):
    for node, sss in ol:
      for ss in sss:
        bobjs[i].AddOrigin(nodes[node], [bobjs[j] for j in ss])
  for node, bi in g.conds.items():
    nodes[node].condition = bobjs[bi]
  g.prog, g.nodes, g.vobjs, g.bobjs = p, nodes, vobjs, bobjs
  return g


# ------------------------------------------------------------------ reference


def _expand(g, n, goals):
  """All ways of discharging, at node n, the goals that originate at n.

  Returns a list of (removed frozenset, remaining frozenset).  A goal with an
  origin at n is replaced by (each choice of) one of that origin's source sets,
  recursively for members that also originate at n.
  """
  res = []
  origins = g.origins

  def rec(todo, seen, removed, new):
    if not todo:
      res.append((frozenset(removed), frozenset(new)))
      return
    t = min(todo)
    rest = todo - {t}
    if t in seen:
      rec(rest, seen, removed, new)
      return
    seen2 = seen | {t}
    sss = origins[t].get(n)
    if sss is None:
      rec(rest, seen2, removed, new | {t})
      return
    rem2 = removed | {t}
    if not sss:
      rec(rest, seen2, rem2, new)
    for ss in sss:
      rec(rest | ss, seen2, rem2, new)

  here = frozenset(x for x in goals if n in origins[x])
  rec(here, frozenset(), frozenset(), frozenset(goals - here))
  return res


def _conflict(g, s):
  vs = [g.vars[x] for x in s]
  return len(vs) != len(set(vs))


def ref_solve(g, q, goals, conds=True):
  """True iff some backward walk from q explains all goals.

  Walk semantics (the property statement): at each node the goals originating
  there are discharged through one source set each (recursively, earlier =
  here or further back); the set discharged at one node must not contain two
  bindings of one variable; a remaining goal whose variable is (re)bound at the
  current node is dead; otherwise step to any predecessor.  With conds=True
  every visited node's condition is added to the goals (strict reading).
  Search is over (node, goal set) states, so cycles are handled.
  """
  start = (q, frozenset(goals))
  seen = {start}
  stack = [start]
  while stack:
    n, gs = stack.pop()
    if conds and n in g.conds:
      gs = gs | {g.conds[n]}
    key = (n, gs)
    ex = g.memo.get(key)
    if ex is None:
      ex = g.memo[key] = _expand(g, n, gs)
    for removed, new in ex:
      if _conflict(g, removed):
        continue
      if not new:
        return True
      dead = False
      for x in new:
        if n in g.vnodes[g.vars[x]]:
          dead = True
          break
      if dead:
        continue
      for p in g.preds[n]:
        st = (p, new)
        if st not in seen:
          seen.add(st)
          stack.append(st)
  return False


def back_reach(g):
  """br[q] = set of nodes backward-reachable from q (reflexive)."""
  out = []
  for q in range(g.n):
    seen = {q}
    st = [q]
    while st:
      x = st.pop()
      for p in g.preds[x]:
        if p not in seen:
          seen.add(p)
          st.append(p)
    out.append(seen)
  return out


def is_acyclic(g):
  color = [0] * g.n
  succ = [[] for _ in range(g.n)]
  for a, b in g.edges:
    if a == b:
      continue
    succ[a].append(b)

  def dfs(u):
    color[u] = 1
    for w in succ[u]:
      if color[w] == 1 or (color[w] == 0 and not dfs(w)):
        return False
    color[u] = 2
    return True
  return all(color[u] or dfs(u) for u in range(g.n))


def subsets(items, kmax):
  for k in range(1, kmax + 1):
    yield from itertools.combinations(items, k)
