"""Runs upstream unit-test modules that need the C++ extension (not in the baseline)."""
import sys, unittest, importlib
from vk import boot
boot.ensure_env()
boot.load()
mods = sys.argv[1:] or ["pytype.typegraph.cfg_test", "pytype.typegraph.cfg_utils_test"]
suite = unittest.TestSuite()
for m in mods:
  suite.addTests(unittest.defaultTestLoader.loadTestsFromModule(importlib.import_module(m)))
r = unittest.TextTestRunner(verbosity=0).run(suite)
sys.exit(0 if r.wasSuccessful() else 1)
