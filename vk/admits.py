"""Run-time membership oracle: does a type term admit a concrete Python value?

Type terms (plain tuples, independent of pytype's representations):
  ("any",)                      Any / object / TypeVar / unknown name  (admits everything)
  ("none",)
  ("cls", name)                 nominal class (builtin or user, resolved in env)
  ("gen", name, (args...))      list/set/frozenset/dict/Sequence/... with element terms
  ("tuple", (t1, t2, ...))      fixed-length tuple
  ("vtuple", t)                 tuple[t, ...]
  ("union", (t...))
  ("type", t)                   type[t]
  ("callable",)                 any callable
  ("literal", value)
  ("nothing",)                  Never / NoReturn: admits no value
Written from PEP 484: bool <: int, int -> float -> complex promotion.
"""

import ast as pyast
import collections.abc as cabc
import types

ANY = ("any",)

_BUILTIN = {
    "int": int, "str": str, "bytes": bytes, "bool": bool, "float": float,
    "complex": complex, "list": list, "dict": dict, "set": set,
    "frozenset": frozenset, "tuple": tuple, "type": type, "range": range,
    "bytearray": bytearray, "slice": slice, "BaseException": BaseException,
    "Exception": Exception, "ValueError": ValueError, "TypeError": TypeError,
    "IndexError": IndexError, "KeyError": KeyError, "NameError": NameError,
    "AttributeError": AttributeError, "ZeroDivisionError": ZeroDivisionError,
    "enumerate": enumerate, "zip": zip, "map": map, "filter": filter,
    "reversed": reversed, "memoryview": memoryview, "property": property,
    "staticmethod": staticmethod, "classmethod": classmethod, "super": super,
}
_ABC = {
    "Sequence": cabc.Sequence, "MutableSequence": cabc.MutableSequence,
    "Iterable": cabc.Iterable, "Iterator": cabc.Iterator,
    "Collection": cabc.Collection, "Container": cabc.Container,
    "Mapping": cabc.Mapping, "MutableMapping": cabc.MutableMapping,
    "Set": cabc.Set, "AbstractSet": cabc.Set, "MutableSet": cabc.MutableSet,
    "Sized": cabc.Sized, "Hashable": cabc.Hashable, "Reversible": cabc.Reversible,
    "Generator": cabc.Generator, "Coroutine": cabc.Coroutine,
    "Awaitable": cabc.Awaitable, "KeysView": cabc.KeysView,
    "ValuesView": cabc.ValuesView, "ItemsView": cabc.ItemsView,
    "List": list, "Dict": dict, "FrozenSet": frozenset, "Tuple": tuple,
    "Type": type, "DefaultDict": dict, "Deque": None,
}
_ANYNAMES = {"Any", "object", "typing.Any", "builtins.object", "Incomplete", "Self"}
_NOTHING = {"NoReturn", "Never", "nothing"}
_FUNC_NAMES = {"function", "Callable", "builtin_function_or_method", "method", "FunctionType"}


def strip_mod(name):
  for p in ("typing.", "builtins.", "collections.abc.", "typing_extensions."):
    if name.startswith(p):
      return name[len(p):]
  return name


def from_ast(node, typevars=()):
  """Python ast annotation node -> type term."""
  if node is None:
    return ANY
  if isinstance(node, pyast.Constant):
    if node.value is None:
      return ("none",)
    if isinstance(node.value, str):
      try:
        return from_ast(pyast.parse(node.value, mode="eval").body, typevars)
      except SyntaxError:
        return ANY
    if node.value is Ellipsis:
      return ANY
    return ("literal", node.value)
  if isinstance(node, (pyast.Name, pyast.Attribute)):
    name = strip_mod(pyast.unparse(node))
    return from_name(name, typevars)
  if isinstance(node, pyast.BinOp) and isinstance(node.op, pyast.BitOr):
    return mk_union([from_ast(node.left, typevars), from_ast(node.right, typevars)])
  if isinstance(node, pyast.Subscript):
    base = strip_mod(pyast.unparse(node.value))
    sl = node.slice
    args = list(sl.elts) if isinstance(sl, pyast.Tuple) else [sl]
    return from_generic(base, args, typevars, lambda a: from_ast(a, typevars),
                        lambda a: isinstance(a, pyast.Constant) and a.value is Ellipsis,
                        lambda a: isinstance(a, pyast.Tuple) and not a.elts,
                        lambda a: pyast.literal_eval(a))
  return ANY


def from_name(name, typevars=()):
  if name in typevars or name in _ANYNAMES:
    return ANY
  if name in ("None", "NoneType"):
    return ("none",)
  if name in _NOTHING:
    return ("nothing",)
  if name in _FUNC_NAMES:
    return ("callable",)
  return ("cls", name)


def from_generic(base, args, typevars, conv, is_ellipsis, is_empty_tuple, lit):
  if base in ("Union",):
    return mk_union([conv(a) for a in args])
  if base == "Optional":
    return mk_union([conv(args[0]), ("none",)])
  if base in ("tuple", "Tuple"):
    if len(args) == 1 and is_empty_tuple(args[0]):
      return ("tuple", ())
    if len(args) == 2 and is_ellipsis(args[1]):
      return ("vtuple", conv(args[0]))
    return ("tuple", tuple(conv(a) for a in args))
  if base in ("type", "Type"):
    return ("type", conv(args[0]))
  if base == "Callable":
    return ("callable",)
  if base == "Literal":
    out = []
    for a in args:
      try:
        out.append(("literal", lit(a)))
      except (ValueError, SyntaxError, TypeError):
        out.append(ANY)    # an enum member (Literal[Color.RED]): not a literal Python value
    return mk_union(out)
  if base in ("Annotated", "Final", "ClassVar"):
    return conv(args[0])
  return ("gen", base, tuple(conv(a) for a in args))


def mk_union(ts):
  flat = []
  for t in ts:
    if t[0] == "union":
      flat.extend(t[1])
    else:
      flat.append(t)
  if any(t == ANY for t in flat):
    return ANY
  return ("union", tuple(flat))


class Env:
  """Resolves class names to run-time classes (program namespace first)."""

  def __init__(self, ns=None):
    self.ns = ns or {}
    self.unknown = set()

  def cls(self, name):
    v = self.ns.get(name)
    if isinstance(v, type):
      return v
    if "." in name:   # nested class or module-qualified
      cur = self.ns.get(name.split(".")[0])
      for part in name.split(".")[1:]:
        cur = getattr(cur, part, None)
      if isinstance(cur, type):
        return cur
    if name in _BUILTIN:
      return _BUILTIN[name]
    if name in _ABC:
      return _ABC[name]
    return None


def admits(t, v, env):
  k = t[0]
  if k == "any":
    return True
  if k == "nothing":
    return False
  if k == "none":
    return v is None
  if k == "union":
    return any(admits(x, v, env) for x in t[1])
  if k == "literal":
    return type(v) is type(t[1]) and v == t[1]
  if k == "callable":
    return callable(v)
  if k == "cls":
    return admits_cls(t[1], v, env)
  if k == "tuple":
    return isinstance(v, tuple) and len(v) == len(t[1]) and all(
        admits(x, y, env) for x, y in zip(t[1], v))
  if k == "vtuple":
    return isinstance(v, tuple) and all(admits(t[1], y, env) for y in v)
  if k == "type":
    if not isinstance(v, type):
      return False
    inner = t[1]
    if inner[0] == "any":
      return True
    if inner[0] == "union":
      return any(admits(("type", x), v, env) for x in inner[1])
    if inner[0] == "cls":
      c = env.cls(inner[1])
      if c is None:
        env.unknown.add(inner[1])
        return True
      if c is float:
        return issubclass(v, (float, int))
      if c is complex:
        return issubclass(v, (complex, float, int))
      if c.__module__ == "__vk_prog__":
        return any(k.__name__ == c.__name__ and k.__module__ == c.__module__ for k in v.__mro__)
      return issubclass(v, c)
    if inner[0] == "gen":
      c = env.cls(inner[1])
      return c is None or issubclass(v, c)
    return True
  if k == "gen":
    return admits_gen(t[1], t[2], v, env)
  raise ValueError(t)


def admits_cls(name, v, env):
  c = env.cls(name)
  if c is not None and c.__module__ == "__vk_prog__":
    # program-defined classes: nominal by name through the value's MRO (a class
    # statement executed twice creates two distinct run-time classes of one name)
    return any(k.__name__ == c.__name__ and k.__module__ == c.__module__ for k in type(v).__mro__)
  if c is None:
    env.unknown.add(name)
    return True
  if c is float:
    return isinstance(v, (float, int))
  if c is complex:
    return isinstance(v, (complex, float, int))
  if c is int:
    return isinstance(v, int)
  if c is type and isinstance(v, type):
    return True
  if c is bytes:
    return isinstance(v, (bytes, bytearray, memoryview))
  return isinstance(v, c)


def admits_gen(base, args, v, env):
  c = env.cls(base)
  if c is None:
    env.unknown.add(base)
    return True
  if not isinstance(v, c):
    return False
  view = getattr(v, "__vk_view__", None)
  if view is not None:
    # harness-defined generic classes describe how an instance looks when seen as `base`:
    # one list of witness values per type parameter of `base`
    ws = view(base)
    if ws is not None and len(ws) == len(args):
      return all(admits(a, w, env) for a, wl in zip(args, ws) for w in wl)
  if isinstance(v, (str, bytes)) and c not in (str, bytes):
    # str as Sequence[str]/Iterable[str]: elements are str
    return all(admits(args[0], x, env) for x in v) if args else True
  try:
    if isinstance(v, cabc.Mapping):
      if len(args) == 2:
        return all(admits(args[0], a, env) and admits(args[1], b, env) for a, b in v.items())
      if len(args) == 1:   # a mapping seen as Iterable/Collection/Container[K]: its keys
        return all(admits(args[0], a, env) for a in v)
      return True
    if isinstance(v, (list, set, frozenset, tuple, range, cabc.KeysView, cabc.ValuesView)):
      if len(args) == 1:
        return all(admits(args[0], x, env) for x in v)
      return True
  except Exception:  # pylint: disable=broad-except
    return True
  # generators, iterators, user generics: parameters are not checkable at run time
  return True


# ------------------------------------------------------------------ pytd -> term


def from_pytd(t, typevars=()):
  """pytd type node -> type term (same language as from_ast)."""
  from pytype.pytd import pytd
  if isinstance(t, pytd.AnythingType):
    return ANY
  if isinstance(t, pytd.NothingType):
    return ("nothing",)
  if isinstance(t, pytd.TypeParameter):
    return ANY
  if isinstance(t, pytd.UnionType):
    return mk_union([from_pytd(x, typevars) for x in t.type_list])
  if isinstance(t, pytd.IntersectionType):
    return ANY
  if isinstance(t, pytd.Literal):
    v = t.value
    if isinstance(v, pytd.Constant):   # enum member
      return ANY
    if isinstance(v, str) and len(v) >= 2 and v[0] in "'\"b":
      try:
        v = pyast.literal_eval(v)
      except (ValueError, SyntaxError):
        pass
    return ("literal", v)
  if isinstance(t, pytd.Annotated):
    return from_pytd(t.base_type, typevars)
  if isinstance(t, pytd.CallableType):
    return ("callable",)
  if isinstance(t, pytd.TupleType):
    return ("tuple", tuple(from_pytd(x, typevars) for x in t.parameters))
  if isinstance(t, pytd.GenericType):
    base = strip_mod(_local(t.base_type.name))
    if base in ("tuple", "Tuple"):
      return ("vtuple", from_pytd(t.parameters[0], typevars))
    if base in ("type", "Type"):
      return ("type", from_pytd(t.parameters[0], typevars))
    if base == "Callable":
      return ("callable",)
    return ("gen", base, tuple(from_pytd(x, typevars) for x in t.parameters))
  if isinstance(t, (pytd.NamedType, pytd.ClassType, pytd.LateType)):
    return from_name(strip_mod(_local(t.name)), typevars)
  return ANY


def _local(name):
  # names parsed with a module name carry "<module>." prefixes for local classes
  for p in ("<string>.", "inferred + unknowns."):
    if name.startswith(p):
      return name[len(p):]
  return name
