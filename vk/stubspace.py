"""Generated stubs in the dialect pytype emits: type forms x declaration forms.

Everything is enumerated completely for a given (depth, tier); nothing is sampled.
"""

import hashlib
import itertools

SCALARS = ["int", "str", "float", "bool", "bytes", "complex", "None", "Any", "object"]
CLASSES = ["A", "B", "foo.Bar"]

HEADER = ("import foo\n"
          "from typing import Any, Callable, Generic, Iterable, Literal, Mapping, Optional, Sequence, "
          "TypeVar, Union, overload\n\n")
CLASS_DEFS = ("class A:\n    pass\n\n"
              "class B(A):\n    pass\n\n")


def t0():
  return SCALARS + CLASSES


def generic1(args):
  """Depth+1 forms over a list of argument types."""
  out = []
  for a in args:
    out += ["list[%s]" % a, "set[%s]" % a, "dict[str, %s]" % a, "tuple[%s, ...]" % a,
            "Optional[%s]" % a if a not in ("None", "Any", "object") else "list[list[%s]]" % a,
            "type[%s]" % a if a not in ("None",) else "frozenset[None]",
            "Sequence[%s]" % a, "Iterable[%s]" % a, "Mapping[str, %s]" % a,
            "Callable[[], %s]" % a, "Callable[[%s], Any]" % a, "Callable[..., %s]" % a]
  return out


def pairs2(args):
  out = []
  for a, b in itertools.permutations(args, 2):
    out += ["tuple[%s, %s]" % (a, b), "dict[%s, %s]" % (a, b) if a not in ("None", "Any") else "tuple[%s, %s, %s]" % (a, b, a),
            "Callable[[%s, %s], %s]" % (a, b, a)]
    if "Any" not in (a, b) and "object" not in (a, b):
      out.append("Union[%s, %s]" % (a, b))
  return out


SPECIAL = ["tuple[()]", "Literal[1]", "Literal['a']", "Literal[True]", "Literal[b'x']", "Literal[1, 'a']",
           "Literal[None]", "Union[int, str, None]", "Optional[Union[int, str]]", "Callable[..., Any]",
           "Callable", "list", "dict", "tuple", "type", "Union[A, foo.Bar]", "type[Union[A, int]]",
           "tuple[int, tuple[str, ...]]", "dict[str, dict[str, list[Optional[int]]]]",
           "Callable[[Callable[[int], str]], Callable[..., None]]",
           "Union[int, list[Union[str, None]]]", "Optional[Callable[[], Optional[int]]]",
           "Literal[1, True]", "Literal[0, False, 'a']", "Literal[1, 2] | Literal['a']"]


def types(tier):
  base = t0()
  small = ["int", "str", "None", "A", "Any"]
  d1 = generic1(base) + pairs2(small)
  if tier == "quick":
    d2 = generic1(["list[int]", "Optional[str]", "tuple[int, str]", "Callable[[int], str]", "Union[int, A]"])
  else:
    d2 = generic1(generic1(small)[:40] + pairs2(["int", "str", "A"])) + pairs2(["list[int]", "Optional[str]", "type[A]", "tuple[()]"])
  out = []
  seen = set()
  for t in base + d1 + SPECIAL + d2:
    if t not in seen:
      seen.add(t)
      out.append(t)
  return out


# Declaration forms: {T} and {U} are type holes; {n} a fresh suffix.
DECLS1 = [
    "x{n}: {T}\n",
    "def f{n}(a: {T}) -> None: ...\n",
    "def f{n}() -> {T}: ...\n",
    "def f{n}(a: {T} = ...) -> {T}: ...\n",
    "def f{n}(*args: {T}, **kwargs: {T}) -> None: ...\n",
    "def f{n}(a, /, b: {T}, *, c: {T} = ...) -> {T}: ...\n",
    "def f{n}(a: {T}, *, c: {T}) -> None: ...\n",
    "async def f{n}(a: {T}) -> {T}: ...\n",
    "class K{n}:\n    x: {T}\n    def m(self, a: {T}) -> {T}: ...\n",
    "class K{n}(A):\n    def __init__(self, a: {T}) -> None: ...\n",
    "class K{n}(list[{T}]): ...\n",
    "class K{n}:\n    @property\n    def p(self) -> {T}: ...\n",
    "class K{n}:\n    @staticmethod\n    def s(a: {T}) -> {T}: ...\n    @classmethod\n    def c(cls, a: {T}) -> {T}: ...\n",
    "class K{n}:\n    class N:\n        y: {T}\n    z: {T}\n",
    "_T{n} = TypeVar('_T{n}', bound={T})\ndef f{n}(a: _T{n}) -> _T{n}: ...\n",
    "_T{n} = TypeVar('_T{n}')\nclass K{n}(Generic[_T{n}]):\n    def m(self, a: {T}) -> _T{n}: ...\n",
    "X{n} = {T}\n",
    "def f{n}(*, a: {T} = ..., b: {T}) -> None: ...\n",
    # every split of the defaults between positional-only and regular parameters, with and without regular ones
    "def f{n}(a, b: {T} = ..., /) -> None: ...\n",
    "def f{n}(a: {T} = ..., /, *, k: {T}) -> None: ...\n",
    "def f{n}(a: {T} = ..., /, b: {T} = ...) -> None: ...\n",
    "def f{n}(a, /, b: {T} = ...) -> None: ...\n",
    "class K{n}:\n    def m(self, a: {T} = ..., /) -> {T}: ...\n",
    "def f{n}(a: {T} = ..., *args: {T}, b: {T} = ..., c: {T}, **kw: {T}) -> None: ...\n",
    "class K{n}:\n    @classmethod\n    def __class_getitem__(cls, item: {T}) -> {T}: ...\n    def __init_subclass__(cls, a: {T}) -> None: ...\n    def __new__(cls, a: {T}) -> K{n}: ...\n",
    "class K{n}:\n    class N:\n        class M:\n            y: {T}\n",
    "class K{n}:\n    class N: ...\n    class M(A): ...\n\ndef f{n}(a: K{n}.N) -> {T}: ...\n",
    # one name at two scopes: a module-level class and a nested class, each used after both are defined
    "class Meta{n}:\n    x: {T}\n\nclass K{n}:\n    class Meta{n}:\n        y: {T}\n    def m(self, a: Meta{n}) -> None: ...\n\ndef f{n}(a: Meta{n}, b: K{n}.Meta{n}) -> {T}: ...\n",
    "class K{n}:\n    class Meta{n}:\n        y: {T}\n\nclass Meta{n}:\n    x: {T}\n\ndef f{n}(a: Meta{n}, b: K{n}.Meta{n}) -> {T}: ...\n",
    "def g{n}(a: {T}) -> {T}: ...\n\nclass K{n}:\n    def g{n}(self) -> {T}: ...\n    x: {T}\n\nx: K{n}\n",
]
DECLS2 = [
    "def f{n}(a: {T}, b: {U}) -> {U}: ...\n",
    "@overload\ndef f{n}(a: {T}) -> {T}: ...\n@overload\ndef f{n}(a: {U}) -> {U}: ...\n",
    "_T{n} = TypeVar('_T{n}', {T}, {U})\ndef f{n}(a: _T{n}) -> list[_T{n}]: ...\n",
    "class K{n}:\n    x: {T}\n    y: {U}\n    def m(self, a: {T}) -> {U}: ...\n",
    "class K{n}(A, dict[{T}, {U}]): ...\n",
    "class K{n}:\n    @overload\n    def m(self, a: {T}) -> {T}: ...\n    @overload\n    def m(self, a: {U}) -> {U}: ...\n",
]
IMPORT_FORMS = [
    "import foo\n\nx: foo.Bar\n",
    "import foo.bar\n\nx: foo.bar.Baz\n",
    "from foo import Bar\n\nx: Bar\n",
    "from foo import Bar as Baz\n\nx: Baz\n",
    "import foo as f\n\nx: f.Bar\n",
    "from foo.bar import baz as qux, quux\n\nx: qux.K\ny: quux\n",
    "from typing import Any\n\ndef f(x, *args, y: int = ..., **kwargs) -> Any: ...\n",
    "import enum\n\nclass Color(enum.Enum):\n    RED: int\n    BLUE: int\n",
    "from typing import NamedTuple\n\nclass P(NamedTuple):\n    x: int\n    y: str\n",
    "from typing import TypeVar\n\n_T = TypeVar('_T')\n\ndef f(x: _T, y: list[_T]) -> dict[str, _T]: ...\n",
    "from typing import Generator\n\ndef g() -> Generator[int, str, None]: ...\n",
    "from typing import Protocol\n\nclass P(Protocol):\n    def m(self) -> int: ...\n",
    "class K:\n    def __getattr__(self, name) -> int: ...\n    __slots__ = ['a']\n",
    "x: int = ...\ny = ...  # type: str\n",
]


# Types that name (generic) classes of other modules: resolvable ones (collections, enum: bundled
# stubs) and unresolvable ones (foo).  Each is put into every one-hole declaration form.
EXTERNAL_HEADER = ("import collections\nimport enum\nimport foo\nimport foo.bar\n"
                   "from typing import Any, Callable, Generic, Optional, TypeVar, Union, overload\n\n")
EXTERNAL_TYPES = ["collections.OrderedDict[str, int]", "collections.deque[int]", "collections.defaultdict[str, list[int]]",
                  "collections.Counter[str]", "type[collections.OrderedDict]", "enum.Enum", "Optional[collections.deque[A]]",
                  "foo.Gen[int]", "foo.bar.Gen[str, foo.Bar]", "list[foo.Bar]", "Union[collections.deque[int], foo.Gen[int]]",
                  "Callable[[collections.deque[int]], foo.Bar]"]


def external_stubs(tier):
  out = []
  decls = DECLS1 if tier != "quick" else DECLS1[:4] + DECLS1[8:12] + DECLS1[14:]
  for d in decls:
    for t in EXTERNAL_TYPES:
      out.append(EXTERNAL_HEADER + CLASS_DEFS + d.format(T=t, n=""))
  return out


def sid(text):
  return hashlib.sha1(text.encode()).hexdigest()[:16]


def module(decls):
  return HEADER + CLASS_DEFS + "\n".join(decls)


def stubs(tier):
  """Yields (id, text)."""
  ts = types(tier)
  small = ["int", "Optional[str]", "list[A]", "tuple[int, str]", "Callable[[int], str]", "Union[int, A]",
           "Literal['a']", "type[A]", "foo.Bar", "Any"]
  if tier != "quick":
    small = small + ["None", "tuple[()]", "dict[str, list[int]]", "Callable[..., Any]", "Union[int, str, None]"]
  out = []
  seen = set()

  def add(text):
    i = sid(text)
    if i not in seen:
      seen.add(i)
      out.append((i, text))
  # every declaration form x every type
  for d in DECLS1:
    for t in ts:
      add(module([d.format(T=t, n="")]))
  for d in DECLS2:
    for t, u in itertools.permutations(small, 2):
      add(module([d.format(T=t, U=u, n="")]))
  # declaration forms pairwise combined into modules
  forms = DECLS1 + DECLS2
  for (i, d1), (j, d2) in itertools.permutations(list(enumerate(forms)), 2):
    if j < i and tier == "quick":
      continue
    t, u = small[(i + j) % len(small)], small[(i * 3 + j + 1) % len(small)]
    add(module([d1.format(T=t, U=u, n="1"), d2.format(T=u, U=t, n="2")]))
  for f in IMPORT_FORMS:
    add(f)
  for f in external_stubs(tier):
    add(f)
  return out


# ---- type nodes for the eq/hash law (C12): type expression strings, parsed by the caller
def type_exprs(tier):
  return types(tier)
