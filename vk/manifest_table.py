"""Table from which tools_manifest.py generates MANIFEST.json."""

HOOK_COMMITS = []

CHECKS = [
  {"property_id": "C09", "level": "model_checking",
   "technique": "explicit-state BFS over insertion histories on the real cfg.Program, BFS-reachability reference model",
   "text": "All histories of NewCFGNode/ConnectNew/ConnectTo (self and duplicate edges included) from the empty program up to 4 (quick) / 5 (thorough) nodes, and from 62..191-node seed graphs over a window straddling the 64-bit bucket boundary, are executed on the real C++ analyzer; after every transition is_reachable is compared with BFS over the recorded edges.",
   "note": "Bounded: node counts / window / depth as reported in evidence.bounds; state merging assumes the observable bit matrix is the analyzer's whole state (guarded by a non-merging run). Trusted: the harness's BFS reference and pybind11 bindings."},
]

_ALL = ["C%02d" % i for i in range(1, 21)]
_PENDING = "check not built yet in this session (design in DESIGN.md §3); not claimed"
NOT_APPLICABLE = [{"property_id": p, "reason": _PENDING} for p in _ALL
                  if p not in {c["property_id"] for c in CHECKS}]
