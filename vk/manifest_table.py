"""Table from which tools_manifest.py generates MANIFEST.json."""

HOOK_COMMITS = []

CHECKS = [
  {"property_id": "C02", "level": "exploration",
   "technique": "bounded-exhaustive enumeration of annotation x value x enforcement site; CPython evaluation of the value plus a PEP-484 membership oracle",
   "text": "For every annotation of a depth-bounded grammar (scalars, 9 generic forms over 4 element types, type[C], fixed and variadic tuples, unions, bare generics, Callable shapes; depth-3 forms in thorough) one program presents 52 ground values (scalars, class objects, hierarchy instances, homogeneous/heterogeneous/empty/nested containers, functions of several arities) at the argument, return and annotated-assignment sites on separate lines; pytype must report the site's error class on a line iff the evaluated value is not an inhabitant, and nothing on any other line.",
   "note": "Analysed with none_is_not_bool=True. Documented pytype policies are excluded from the space (str vs Iterable/Sequence[str]; None at annotated assignment; heterogeneous containers at the argument site; class objects vs specific Callable signatures). Trusted: vk/admits.py + Callable arity via inspect.signature."},
  {"property_id": "C14", "level": "exploration",
   "technique": "bounded-exhaustive enumeration of ground statements; each analysed by pytype and executed in isolation under CPython",
   "text": "All 14,015 statements of the value grammar (25 operands under 20 binary and 4 unary operators, all subscripts, calls, bogus and real attribute reads, real method names with 9 argument lists) are analysed packed one per line and executed alone under CPython: a reported error must coincide with a CPython TypeError/AttributeError on that statement, and CPython failures in the advertised classes (bogus attribute on builtin/user instances, not callable, + - * / unary minus and subscripts between builtin operands) must be reported.",
   "note": "26 listed known findings (dict key of another hashable type is flagged though CPython raises KeyError; float list index and unhashable dict keys are missed; dict.update('s')). Bounded by the operand/method tables in vk/checks/c14.py."},
  {"property_id": "C11", "level": "exploration",
   "technique": "bounded-exhaustive enumeration of pytd declarations x optimiser settings against a finite-universe set semantics of types",
   "text": "All constants whose type is a union of <=2 ordered / 3 unordered members over 33 type forms, functions with 1-3 signatures over a type core, mutated and star parameters and class members are loaded through the real loader and optimised under nine option settings (lossless with/without deps, lossy, use_abcs, max_union 0/2/4, remove_mutable); for every constant/parameter/return the set of universe values admitted before must be a subset of the set admitted after, every original signature must be covered point-wise, lossless non-container unions below the union limit must keep exactly their denotation, and Optimize(Optimize(x)) must equal Optimize(x) structurally and in print.",
   "note": "Denotations are computed on a finite universe of 65 concrete values with vk/admits.py; Callable types only as 'callable'. Bounded by the declaration grammar in vk/checks/c11.py."},
  {"property_id": "C16", "level": "exploration",
   "technique": "bounded-exhaustive enumeration of code objects (PS-full nestings + stdlib corpus) with an independent re-computation of the block-graph invariants from the opcode stream and CPython's dis",
   "text": "Every code object of every PS-full program (all nestings of the statement forms to depth 2 quick / 3 thorough in module, function, async, generator and class contexts) and of the CPython stdlib sources goes through pyc.compile_src and blocks.process_code; clauses (a)-(h) of DESIGN C16 (partition into non-empty blocks, basic-block property, jump targets start blocks and are outgoing edges, every known jump resolved, index/next/prev consistency, order = reachable set with a predecessor before each non-entry block, reachable instructions covered, stream and jump targets equal to dis) are recomputed independently.",
   "note": "Scoping decisions for SETUP_* pseudo-op targets and SEND/END_ASYNC_FOR surgery as in DESIGN C16 and evidence assumptions. Violations are keyed by clause+message signature with the smallest witnessing input."},
  {"property_id": "C17", "level": "exploration",
   "technique": "exhaustive truth-table enumeration of boolean-equation terms built through the public constructors, and of restriction tables for simplify",
   "text": "All terms to level 2 over 3 variables x 3 values (256,974 distinct terms; both argument orders of Eq; And/Or of every list of <=3 atoms, then of <=2 level-1 terms) and to depth 3 over 2x2 (thorough) are built through booleq.Eq/And/Or and compared with bitmask truth tables over all assignments; structural normal form is checked; simplify is run against every restriction table (all 512 incl. empty sets) and must agree with the term on every assignment drawn from the table.",
   "note": "Bounded as stated; value-to-value equalities are outside the property. Trusted: the bitmask evaluator in vk/checks/c17.py."},
  {"property_id": "C12", "level": "exploration",
   "technique": "bounded-exhaustive enumeration of exportable ASTs through encode/decode/re-encode; all ordered pairs of a type-node universe for the eq/hash law",
   "text": "Every exportable AST (programs via PrepareForExport, all generated stubs via SourceToExportableAst, bundled builtins/typing/collections/enum/protocols) is serialised, decoded, compared structurally with the canonically ordered original, re-encoded (bytes must match) and decoded/encoded once more; every ordered pair of a universe of type nodes (all type forms as NamedType and ClassType trees, unions/intersections/tuples in every member order, literals) is checked for a == b => equal hashes and set de-duplication.",
   "note": "Bounded by vk/stubspace.py and the program alphabets. Expected value applies the documented module-alias normalisation (written independently). Bundled ASTs are serialised in a forked child because SerializeAst clears class pointers in place and builtins are cached process-wide."},
  {"property_id": "C01", "level": "exploration",
   "technique": "bounded-exhaustive program enumeration; differential against CPython execution under all branch-condition answers",
   "text": "Every loop-free program of the PS-core alphabet up to the tier's sequence length (quick: all single statements + all 2-sequences over the core templates; thorough: all 2-sequences over all templates) is analysed by the real pipeline (generate_pyi, real C++ solver) and executed under CPython for all four answers of two conditions that are opaque to pytype; every module-level name, instance attribute and program-function call result must be admitted by the stub under a PEP-484 membership oracle.",
   "note": "Bounded by the statement alphabet in vk/progspace.py. Trusted: vk/admits.py oracle (unknown names / TypeVars admit everything, which can only hide violations). Quick tier shares one loader per worker and re-checks any violation with a fresh loader."},
  {"property_id": "C05", "level": "exploration",
   "technique": "bounded-exhaustive enumeration of emitted and generated stubs; parse/verify/print fixpoint laws plus an independent CPython-ast reader as cross-check",
   "text": "Stubs emitted for every program of a definitions-rich alphabet and of PS-core, and every generated stub (each declaration form x each type form to depth 2, two-hole forms x ordered type pairs, declaration forms pairwise, import forms), must parse with pytype's parser, pass VerifyVisitor, be a fixed point of canonical_pyi (after one round for generated stubs), and pytype's reading must agree with an independent reading of the same text by CPython's ast module (names, parameter kinds/defaults, annotation terms, bases).",
   "note": "Bounded by vk/stubspace.py and the program alphabets. Trusted: the cross-reader in vk/checks/c05.py and vk/admits.py term conversion."},
  {"property_id": "C07", "level": "exploration",
   "technique": "bounded-exhaustive enumeration of typegraphs and queries on the real solver vs a path-enumerating reference solver",
   "text": "Every typegraph within the bound (all edge subsets acyclic and cyclic, every binding-to-variable assignment, every origin placement, all <=D deviations: extra origins, source-set members, extra source sets, node conditions) is built on the real cfg.Program; every node x every binding subset of size <=3 is queried through HasCombination/CanHaveCombination/IsVisible/Filter/Bindings and compared with a reference that enumerates backward walks (equality on acyclic unconditioned graphs, completeness with conditions and cycles, goal reachability and subset closure everywhere).",
   "note": "Bounded: graph sizes per tier in vk/checks/c07.py items_for, reported in evidence. Trusted: the reference solver (vk/tg.py) as a transcription of the property statement."},
  {"property_id": "C08", "level": "model_checking",
   "technique": "explicit-state BFS over mutation/query histories on a live cfg.Program, differential against a fresh replica per query",
   "text": "All histories up to the depth bound over NewCFGNode/ConnectNew/ConnectTo/NewVariable/AddBinding/AddOrigin/PasteBinding/PasteVariable/PasteBindingWithNewData/AssignToNewVariable/condition assignment with a bounded number of cache-warming queries anywhere are executed on the real Program; in every reached state each observation must equal that of a replica rebuilt by replaying the mutations only, and must not flip when repeated.",
   "note": "Bounded: nodes/variables/bindings/depth/warming queries as in evidence.explorations. State merging on (structure, ordered warming queries + structure hash at ask time)."},
  {"property_id": "C09", "level": "model_checking",
   "technique": "explicit-state BFS over insertion histories on the real cfg.Program, BFS-reachability reference model",
   "text": "All histories of NewCFGNode/ConnectNew/ConnectTo (self and duplicate edges included) from the empty program up to 4 (quick) / 5 (thorough) nodes, and from 62..191-node seed graphs over a window straddling the 64-bit bucket boundary, are executed on the real C++ analyzer; after every transition is_reachable is compared with BFS over the recorded edges.",
   "note": "Bounded: node counts / window / depth as reported in evidence.bounds; state merging assumes the observable bit matrix is the analyzer's whole state (guarded by a non-merging run). Trusted: the harness's BFS reference and pybind11 bindings."},
]

_ALL = ["C%02d" % i for i in range(1, 21)]
_PENDING = "check not built yet in this session (design in DESIGN.md §3); not claimed"
NOT_APPLICABLE = [{"property_id": p, "reason": _PENDING} for p in _ALL
                  if p not in {c["property_id"] for c in CHECKS}]
