"""PS-full: the bounded space of control-flow nestings (DESIGN.md section 2).

A program is one *nesting chain* placed in one *context*:

  context  in  CONTEXTS = mod | fn | afn | gen | cls
               (module level, function, async function, generator, class body)
  chain    =   (form, hole) > (form, hole) > ... > terminal
               every link is a compound form from FORMS with the inner program
               put into exactly one of its statement holes (all other holes get
               a default one-line filler); the terminal is either a simple
               statement from LEAVES or a compound form with all holes defaulted.

depth = number of forms in the chain including the terminal, so

  depth 1:  |T|                     programs per context
  depth k:  |HOLES|**(k-1) * |T|    programs per context      (T = LEAVES + FORMS)

`programs(depth)` yields every chain of length 1..depth in every context, i.e.
the space is enumerated completely and deterministically (no sampling); each
program has a stable, human readable id such as

    afn:tryfull.3>asyncfor.0>break

from which `source(id)` rebuilds the text.  Candidates that CPython 3.12 rejects
(`break` outside a loop, `await` outside `async def`, `return` in a class body,
...) are filtered out by actually compiling them and are counted in `stats`.

Sharding for worker pools: `buckets(depth)` lists disjoint keys whose union is
the whole space; `programs(depth, bucket=key)` enumerates one of them.
"""

import hashlib
import sys
import warnings

CONTEXTS = ("mod", "fn", "afn", "gen", "cls", "meth")

# Names used by the fragments.  They are bound at module level by PRELUDE and
# shadowed by parameters in the function contexts, so every program is closed.
PRELUDE = (
    'a, b, c = [1, 2], {"k": 1}, bool("x")\n'
    "E, K, d, f, m = ValueError, int, staticmethod, print, open\n"
)

_CTX = {
    "mod": "x = None\n$0\nz = x\n",
    "fn": "def f0(a, b, c):\n  x = None\n  $0\n  z = x\n",
    "afn": "async def f0(a, b, c):\n  x = None\n  $0\n  z = x\n",
    "gen": "def f0(a, b, c):\n  x = yield a\n  $0\n  z = x\n",
    "cls": "class K0:\n  x = None\n  $0\n  z = x\n",
    "meth": "class K0:\n  def m0(self, a, b, c):\n    x = None\n    $0\n    z = x\n",
}

# Simple statements (no statement holes).  Order is part of the enumeration.
LEAVES = (
    ("assign", "x = a"),
    ("pass", "pass"),
    ("break", "break"),
    ("continue", "continue"),
    ("return", "return"),
    ("returnv", "return a"),
    ("raise", "raise E(a)"),
    ("reraise", "raise"),
    ("assert", "assert a, b"),
    ("yield", "x = yield a"),
    ("yieldfrom", "x = yield from a"),
    ("await", "x = await a"),
    ("listcomp", "x = [i for i in a if i]"),
    ("setcomp", "x = {i for i in a}"),
    ("dictcomp", "x = {i: j for i, j in b}"),
    ("genexp", "x = sum(i for i in a)"),
    ("asynccomp", "x = [i async for i in a]"),
    ("lambda", "x = lambda p, q=a: p or q"),
    ("star", "p, *q = f(*a, **b)"),
    ("walrus", "x = [n := a, n]"),
    ("chaincmp", "x = a < b < c"),
    ("fstring", 'x = f"{a!r:>{b}} {c}"'),
    ("boolop", "x = a and b or (c if a else b)"),
    ("import", "import collections"),
    ("del", "del x"),
    # statements that make pytype report an error (recoverable analysis paths)
    ("nameerr", "x = undefined_name"),
    ("attrerr", "x = a.no_such_attribute"),
    ("lambdaerr", "x = (lambda: undefined_name2)()"),
    ("callerr", "x = K(1, 2, 3, 4)"),
)

# Compound statements.  "$k" on a line of its own is statement hole k.
FORMS = (
    ("if", "if c:\n  $0\n"),
    ("ifelse", "if c:\n  $0\nelse:\n  $1\n"),
    ("while", "while c:\n  $0\n"),
    ("whileelse", "while c:\n  $0\nelse:\n  $1\n"),
    ("whiletrue", "while True:\n  $0\n"),
    ("for", "for i in a:\n  $0\n"),
    ("forelse", "for i in a:\n  $0\nelse:\n  $1\n"),
    ("tryexcept", "try:\n  $0\nexcept E as e:\n  $1\n"),
    ("tryfinally", "try:\n  $0\nfinally:\n  $1\n"),
    ("tryfull", "try:\n  $0\nexcept E:\n  $1\nelse:\n  $2\nfinally:\n  $3\n"),
    ("trystar", "try:\n  $0\nexcept* E as e:\n  $1\n"),
    ("with", "with m as p:\n  $0\n"),
    ("matchlit", 'match a:\n  case 1:\n    $0\n  case "s":\n    x = 7\n  case _:\n    $1\n'),
    ("matchcls", "match a:\n  case K(real=1, imag=q):\n    $0\n"),
    ("matchseq", "match a:\n  case [p, *q]:\n    $0\n"),
    ("matchmap", 'match b:\n  case {"k": p, **q}:\n    $0\n'),
    ("matchor", "match a:\n  case 1 | 2 | None:\n    $0\n"),
    ("matchguard", "match a:\n  case p if p > b:\n    $0\n"),
    ("asyncfor", "async for i in a:\n  $0\n"),
    ("asyncwith", "async with m as p:\n  $0\n"),
    ("def", "def g(p, q=a):\n  $0\n"),
    ("asyncdef", "async def g(p, q=a):\n  $0\n"),
    ("class", "class L(K):\n  $0\n"),
    ("deco", "@d\ndef g(p):\n  $0\n"),
    ("seq", "s = a\n$0\nt = b\n"),
)

_LEAF = dict(LEAVES)
_FORM = dict(FORMS)


def _nholes(tmpl):
  return sum(1 for ln in tmpl.split("\n") if ln.strip().startswith("$"))


HOLES = tuple((name, h) for name, tmpl in FORMS for h in range(_nholes(tmpl)))
TERMINALS = tuple(n for n, _ in LEAVES) + tuple(n for n, _ in FORMS)


def _fill(tmpl, children):
  """Substitute hole k of tmpl by the lines children[k] (default filler otherwise)."""
  out = []
  for ln in tmpl.rstrip("\n").split("\n"):
    s = ln.strip()
    if s.startswith("$"):
      k = int(s[1:])
      ind = ln[: len(ln) - len(ln.lstrip())]
      for c in children.get(k) or ["x = %d" % (k + 1)]:
        out.append(ind + c)
    else:
      out.append(ln)
  return out


def _render_chain(chain, terminal):
  if terminal in _LEAF:
    lines = [_LEAF[terminal]]
  else:
    lines = _fill(_FORM[terminal], {})
  for name, h in reversed(chain):
    lines = _fill(_FORM[name], {h: lines})
  return lines


def make_id(ctx, chain, terminal):
  return ctx + ":" + ">".join(["%s.%d" % fh for fh in chain] + [terminal])


def parse_id(pid):
  ctx, _, rest = pid.partition(":")
  parts = rest.split(">")
  chain = []
  for p in parts[:-1]:
    name, _, h = p.rpartition(".")
    chain.append((name, int(h)))
  return ctx, tuple(chain), parts[-1]


def source(pid):
  """Source text of the program with this id (compilable or not)."""
  ctx, chain, terminal = parse_id(pid)
  if ctx not in _CTX or terminal not in TERMINALS or any(fh not in HOLES for fh in chain):
    raise KeyError(pid)
  body = _render_chain(chain, terminal)
  return PRELUDE + "\n".join(_fill(_CTX[ctx], {0: body})) + "\n"


def text_sha(src):
  return hashlib.sha1(src.encode()).hexdigest()[:16]


def buckets(depth, contexts=None):
  """Disjoint shard keys covering programs(depth, contexts)."""
  out = []
  for ctx in contexts or CONTEXTS:
    out.append((ctx, None))                  # the depth-1 programs of the context
    if depth >= 2:
      out.extend((ctx, fh) for fh in HOLES)  # chains starting with this (form, hole)
  return out


def _chains(depth, first):
  """All chains (tuples of (form, hole)) of length < depth, optionally with a fixed head."""
  if first is None:
    yield ()
    return
  level = [(first,)]
  for k in range(1, depth):          # chains of k links + terminal = depth k+1
    yield from level
    if k + 1 < depth:
      level = [ch + (fh,) for ch in level for fh in HOLES]


def space(depth, contexts=None, bucket=None):
  """Every candidate (id, source) of the bound, compilable or not."""
  if depth < 1:
    return
  keys = [bucket] if bucket is not None else buckets(depth, contexts)
  for ctx, first in keys:
    ctx_tmpl = _CTX[ctx]
    for chain in _chains(depth, first):
      for terminal in TERMINALS:
        body = _render_chain(chain, terminal)
        yield (make_id(ctx, chain, terminal),
               PRELUDE + "\n".join(_fill(ctx_tmpl, {0: body})) + "\n")


def compiles(src, name="<psfull>"):
  """None if CPython accepts src, else a short reason."""
  try:
    with warnings.catch_warnings():
      warnings.simplefilter("ignore")
      compile(src, name, "exec", dont_inherit=True)
    return None
  except (SyntaxError, ValueError) as e:
    return "%s: %s" % (type(e).__name__, getattr(e, "msg", None) or str(e))


def programs(depth, contexts=None, bucket=None, stats=None):
  """Yield (id, source) for every program of the bound that CPython 3.12 compiles.

  stats (optional dict) receives candidates / compilable / rejected counts and
  rejected_reasons {message: count}.
  """
  if sys.version_info[:2] != (3, 12):
    raise RuntimeError("PS-full is filtered with the running compiler; need CPython 3.12, have %s"
                       % sys.version.split()[0])
  st = stats if stats is not None else {}
  st.setdefault("candidates", 0)
  st.setdefault("compilable", 0)
  st.setdefault("rejected", 0)
  reasons = st.setdefault("rejected_reasons", {})
  for pid, src in space(depth, contexts, bucket):
    st["candidates"] += 1
    why = compiles(src, pid)
    if why is None:
      st["compilable"] += 1
      yield pid, src
    else:
      st["rejected"] += 1
      reasons[why] = reasons.get(why, 0) + 1


def size(depth, contexts=None):
  """Number of candidates (before the compile filter), in closed form."""
  n = sum(len(HOLES) ** k for k in range(depth)) * len(TERMINALS)
  return n * len(contexts or CONTEXTS)


if __name__ == "__main__":
  dep = int(sys.argv[1]) if len(sys.argv) > 1 else 2
  s = {}
  seen = {}
  for pid_, src_ in programs(dep, stats=s):
    seen.setdefault(src_, pid_)
  print("depth", dep, "size", size(dep), {k: v for k, v in s.items() if k != "rejected_reasons"},
        "distinct texts", len(seen))
  for k_, v_ in sorted(s["rejected_reasons"].items(), key=lambda kv: -kv[1]):
    print("  %6d  %s" % (v_, k_))
