"""PS-def: a generated space of definition-rich programs.

A *producer* block defines something (a class shape, a function shape, a typing
construct) under names suffixed with its position and offers value expressions
VALUES (instances, class objects, functions, call results).  A *consumer* block
has one hole {V} through which a value flows into a definition form (attribute
set in __init__, attribute set from outside on two instances, default argument,
container element, return value, base class, alias, union of two branches ...).

  programs(tier):  every producer alone (with its own usage lines)
                   + every (consumer, producer, value) triple      [the "flow" programs]
                   + every ordered pair of producers                [the "pair" programs; quick: core x core]

Everything is enumerated deterministically; ids are stable strings.  Only
builtins/typing/collections/enum are importable in the sandbox, so the blocks use
only those.  All programs are loop-free and run to completion under CPython
(asserted by `python -m vk.defspace`), so C01's run-time oracle applies too.
"""

import itertools

# (id, core?, text, values).  {n} = block position; values may mention names of the block.
PRODUCERS = [
    ("plain", 1, "class K{n}:\n  def __init__(self, v=0):\n    self.v = v\n  def get(self):\n    return self.v\n",
     ["K{n}()", "K{n}('s')", "K{n}", "K{n}().get()", "K{n}(None).v"]),
    ("generic", 1, "from typing import TypeVar, Generic\nT{n} = TypeVar('T{n}')\nclass Box{n}(Generic[T{n}]):\n  def __init__(self, v: T{n}):\n    self.v = v\n  def get(self) -> T{n}:\n    return self.v\n",
     ["Box{n}(1)", "Box{n}('s')", "Box{n}", "Box{n}([1]).get()", "Box{n}(Box{n}(1))"]),
    ("generic2", 0, "from typing import TypeVar, Generic\nKT{n} = TypeVar('KT{n}')\nVT{n} = TypeVar('VT{n}')\nclass Entry{n}(Generic[KT{n}, VT{n}]):\n  def __init__(self, value: VT{n}, key: KT{n}):\n    self.key = key\n    self.value = value\n",
     ["Entry{n}(1, 's')", "Entry{n}", "Entry{n}(None, 2.5).key"]),
    ("prop", 1, "class P{n}:\n  def __init__(self):\n    self._x = 1\n  @property\n  def x(self):\n    return self._x\n  @x.setter\n  def x(self, v):\n    self._x = v\n",
     ["P{n}()", "P{n}().x", "P{n}"]),
    ("static", 0, "class S{n}:\n  @staticmethod\n  def s(a, b=1):\n    return a\n  @classmethod\n  def c(cls, a):\n    return cls()\n",
     ["S{n}.s(1)", "S{n}.c(2)", "S{n}.s", "S{n}"]),
    ("nested", 1, "class Outer{n}:\n  class Inner:\n    y = 1\n    def m(self):\n      return 'i'\n  def mk(self):\n    return Outer{n}.Inner()\n",
     ["Outer{n}().mk()", "Outer{n}.Inner", "Outer{n}.Inner()", "Outer{n}().mk().m()"]),
    ("onlynested", 0, "class Hold{n}:\n  class A:\n    pass\n  class B:\n    class C:\n      z = 1.5\n",
     ["Hold{n}.B.C()", "Hold{n}.A", "Hold{n}.B.C.z"]),
    ("inherit", 1, "class Base{n}:\n  k = (1, 'a')\n  def m(self, a: int) -> int:\n    return a\nclass Der{n}(Base{n}):\n  def m(self, a):\n    return super().m(a)\nclass Mix{n}:\n  j = [1]\nclass Both{n}(Der{n}, Mix{n}):\n  pass\n",
     ["Both{n}()", "Both{n}().k", "Der{n}().m(1)", "Both{n}", "Both{n}().j"]),
    ("namedtuple", 1, "import collections\nPt{n} = collections.namedtuple('Pt{n}', ['x', 'y'])\n",
     ["Pt{n}(1, 'a')", "Pt{n}(1, 'a').x", "Pt{n}"]),
    ("typednt", 0, "from typing import NamedTuple\nclass Rec{n}(NamedTuple):\n  a: int\n  b: str = 'z'\n",
     ["Rec{n}(1)", "Rec{n}(1).b", "Rec{n}"]),
    ("enum", 1, "import enum\nfrom typing import Literal\nclass Color{n}(enum.Enum):\n  RED = 1\n  BLUE = 'b'\ndef paint{n}(c: Literal[Color{n}.RED]) -> str:\n  return 'red'\ndef pick{n}() -> Literal[Color{n}.BLUE]:\n  return Color{n}.BLUE\n",
     ["Color{n}.RED", "Color{n}.BLUE.value", "Color{n}", "pick{n}()", "paint{n}(Color{n}.RED)"]),
    ("intenum", 1, "import enum\nclass Prio{n}(enum.IntEnum):\n  LOW = 1\n  HIGH = 2\nclass Perm{n}(enum.IntFlag):\n  R = 4\n  W = 2\n",
     ["Prio{n}.LOW", "Perm{n}.R | Perm{n}.W", "Prio{n}.LOW + 1", "Prio{n}", "[Prio{n}.HIGH, 1]"]),
    ("libsub", 0, "import collections\nclass MyOD{n}(collections.OrderedDict):\n  pass\nclass MyDD{n}(collections.defaultdict):\n  pass\nclass MyL{n}(list):\n  pass\n",
     ["MyOD{n}()", "MyDD{n}(int)", "MyL{n}([1])", "[MyOD{n}(), {{}}]", "[MyL{n}(), [1]]"]),
    ("typevarfn", 1, "from typing import TypeVar\nC{n} = TypeVar('C{n}', int, str)\nU{n} = TypeVar('U{n}', bound=float)\ndef tv{n}(a: C{n}, b: U{n}) -> C{n}:\n  return a\ndef ident{n}(a):\n  return a\n",
     ["tv{n}(1, 2.5)", "tv{n}", "ident{n}", "ident{n}('s')"]),
    ("branchret", 1, "def br{n}(a):\n  if isinstance(a, int):\n    return 'i'\n  elif isinstance(a, str):\n    return 1\n  return None\n",
     ["br{n}(1)", "br{n}('a')", "br{n}(None)", "br{n}"]),
    ("kwfn", 0, "def kw{n}(a, /, b, *, c=1, **kw):\n  return a, b, c, kw\ndef va{n}(*args, k):\n  return args, k\ndef kwd{n}(*, a=..., b):\n  return b\n",
     ["kw{n}(1, 2, c=3, z=4)", "va{n}(1, 'a', k=None)", "kw{n}", "kwd{n}"]),
    ("asyncgen", 0, "async def co{n}(a):\n  return a\ndef gen{n}(m):\n  yield m\n  yield 'a'\n  return 1.5\n",
     ["co{n}", "gen{n}(1)", "gen{n}"]),
    ("literal", 1, "from typing import Literal\ndef lit{n}(a: Literal['r', 'w'], b: Literal[1, 2] = 1) -> Literal[True]:\n  return True\nlx{n}: Literal['q'] = 'q'\n",
     ["lit{n}('r')", "lx{n}", "lit{n}"]),
    ("typingforms", 0, "from typing import Optional, Union, Callable, Any, List, Dict, Tuple, Type\nclass Z{n}: pass\ndef tf{n}(a: Optional[int], b: Union[int, str], c: Callable[[int], str], d: Callable[..., Any], e: List[int], f: Dict[str, Z{n}], g: Tuple[int, ...], h: Tuple[int, str], i: Type[Z{n}], j: Tuple[()]) -> Optional[Z{n}]:\n  return None\n",
     ["tf{n}", "Z{n}()"]),
    ("meta", 0, "class M{n}(type):\n  pass\nclass WithMeta{n}(metaclass=M{n}):\n  pass\n", ["WithMeta{n}()", "WithMeta{n}"]),
    ("abstract", 0, "import abc\nclass Abs{n}(abc.ABC):\n  @abc.abstractmethod\n  def m(self): ...\nclass Conc{n}(Abs{n}):\n  def m(self):\n    return 1\n",
     ["Conc{n}()", "Conc{n}().m()", "Abs{n}"]),
    ("slots", 0, "class Slots{n}:\n  __slots__ = ('a', 'b')\n  def __init__(self):\n    self.a = 1\n    self.b = 'b'\n", ["Slots{n}()", "Slots{n}().b"]),
    ("closure", 1, "def outer{n}():\n  def inner(a):\n    return a\n  return inner\ndef deco{n}(f):\n  return f\n@deco{n}\ndef wrapped{n}(a: int) -> str:\n  return str(a)\nlam{n} = lambda a, b=2: (a, b)\n",
     ["outer{n}()", "outer{n}()(1)", "wrapped{n}", "wrapped{n}(1)", "lam{n}", "lam{n}(1)"]),
    ("dunder", 0, "class Cmp{n}:\n  def __eq__(self, o):\n    return True\n  def __lt__(self, o):\n    return False\n  def __hash__(self):\n    return 1\n  def __getitem__(self, i):\n    return i\n  def __call__(self, *a):\n    return a\n  def __class_getitem__(cls, item):\n    return cls\n",
     ["Cmp{n}()", "Cmp{n}()(1, 'a')", "Cmp{n}()[0]", "Cmp{n}() < 1"]),
    ("alias", 1, "import collections\nclass TreeNode{n}:\n  def __init__(self, label):\n    self.label = label\nNode{n} = TreeNode{n}\nmod{n} = collections\n",
     ["Node{n}('r')", "TreeNode{n}", "mod{n}.OrderedDict()", "Node{n}"]),
    ("defaults", 1, "def mixed{n}(a, b=1, c='s', *, d=None, e=2.5):\n  return (a, b, c, d, e)\ndef posdef{n}(a, b=[1], /, c=b'b', *args, k=(1,), **kw):\n  return [a, b, c, k]\n",
     ["mixed{n}(0)", "mixed{n}(0, 5.5)", "mixed{n}(0, 5.5, None)", "mixed{n}(0, d='x')", "mixed{n}(0, 5.5, e=None)",
      "posdef{n}(0)", "posdef{n}(0, 1, 2, 3, k=None)", "mixed{n}", "posdef{n}"]),
    ("falsy", 1, "class Z{n}:\n  def __bool__(self):\n    return False\nclass L{n}:\n  def __len__(self):\n    return 0\nclass Pl{n}:\n  pass\nclass ZF{n}(Z{n}, Pl{n}):\n  pass\nclass ZS{n}(Pl{n}, Z{n}):\n  pass\nclass LS{n}(Pl{n}, L{n}):\n  pass\nclass ZD{n}(ZS{n}):\n  pass\n",
     ["ZS{n}()", "LS{n}()", "ZF{n}()", "ZD{n}()", "Z{n}()", "Pl{n}()"]),
    ("containers", 1, "", ["[1, 'a', None]", "{'k': (1, 2.5)}", "{1, 'a'}", "(1, ('a', [b'b']))", "[]", "{}", "(1.0, 2)", "((1.0,), 2)", "None", "1", "'s'"]),
]

# (id, core?, text with {V} (value), {n})
CONSUMERS = [
    ("assign", 1, "x{n} = {V}\n"),
    ("initattr", 1, "class Q{n}:\n  def __init__(self):\n    self.a = {V}\nq{n} = Q{n}().a\n"),
    ("outside", 1, "class R{n}:\n  pass\nr{n}a = R{n}()\nr{n}a.payload = {V}\nr{n}b = R{n}()\nr{n}b.payload = 1\n"),
    ("clsattr", 0, "class W{n}:\n  a = {V}\n  b = [a]\nw{n} = W{n}.b\n"),
    ("default", 1, "def d{n}(a={V}, *, k={V}):\n  return a\ne{n} = d{n}()\n"),
    ("elem", 1, "l{n} = [{V}, 1]\nd{n} = {{'k': {V}}}\nt{n} = ({V}, 's')\n"),
    ("retval", 0, "def r{n}(c):\n  if c:\n    return {V}\n  return None\ns{n} = r{n}(1)\n"),
    ("union2", 1, "u{n} = {V} if input() == 'y' else 1 if input() == 'y' else 's'\n"),
    ("param", 0, "def p{n}(a):\n  return [a]\nm{n} = p{n}({V})\nn{n} = p{n}(1)\n"),
    ("lambda", 0, "f{n} = lambda: {V}\ng{n} = f{n}()\n"),
    ("tuplekey", 0, "k{n} = {{({V}, 1): 2}}\n"),
    ("truth", 1, "t{n} = {V} or 'd'\na{n} = {V} and 1\nif {V}:\n  b{n} = 1\nelse:\n  b{n} = 's'\nc{n} = 2.5 if not {V} else None\n"),
]

_P = {p[0]: p for p in PRODUCERS}
_C = {c[0]: c for c in CONSUMERS}


def _fmt(text, n):
  return text.replace("{n}", str(n))


def producer_alone(pid_):
  _, _, text, values = _P[pid_]
  body = _fmt(text, 0) + "".join("u%d = %s\n" % (i, _fmt(v, 0)) for i, v in enumerate(values))
  return "alone:" + pid_, body


def flow(cid, pid_, vi):
  _, _, ptext, values = _P[pid_]
  ctext = _C[cid][2]
  v = _fmt(values[vi], 0)
  return "flow:%s<-%s#%d" % (cid, pid_, vi), _fmt(ptext, 0) + _fmt(ctext, 1).replace("{V}", v).replace("{{", "{").replace("}}", "}")


def pair(p1, p2):
  t1, v1 = _P[p1][2], _P[p1][3]
  t2, v2 = _P[p2][2], _P[p2][3]
  body = _fmt(t1, 0) + _fmt(t2, 1)
  body += "a0 = %s\na1 = %s\nb0 = [%s, %s]\n" % (_fmt(v1[0], 0), _fmt(v2[0], 1), _fmt(v1[-1], 0), _fmt(v2[-1], 1))
  return "pair:%s+%s" % (p1, p2), body


# ---------------------------------------------------------------- PS-class: class shapes
#
# outer class kind x member set of the outer class x one nested class with a member set of its own.
# Every member kind appears at both levels and under every outer kind; names are deliberately reused
# across scopes (the nested class, a method and a module-level class/function share a name).

_MEMBER = {
    "attr": ("  a = 1\n", "{O}.a"),
    "init": ("  def __init__(self, v=0):\n    self.v = v\n", "{O}().v"),
    "meth": ("  def m(self, p=0):\n    return [p]\n", "{O}().m()"),
    "cmeth": ("  @classmethod\n  def c(cls, p=0):\n    return cls()\n", "{O}.c()"),
    "smeth": ("  @staticmethod\n  def s(p=0):\n    return (p, 's')\n", "{O}.s()"),
    "prop": ("  @property\n  def pr(self):\n    return 1.5\n", "{O}().pr"),
}
_OUTER = {
    "plain": ("", "class Out:\n"),
    "generic": ("from typing import Generic, TypeVar\nT = TypeVar('T')\n", "class Out(Generic[T]):\n"),
    "derived": ("from typing import Generic, TypeVar\nT = TypeVar('T')\nclass Base(Generic[T]):\n  b = None\n", "class Out(Base[int]):\n"),
}


def class_shapes(tier):
  kinds = list(_MEMBER)
  outsets = [()] + [(k,) for k in kinds]
  if tier != "quick":
    outsets += list(itertools.combinations(kinds, 2))
  for ok, (pre, head) in _OUTER.items():
    for outer in outsets:
      for inner in [None] + kinds:
        for shared in ((False, True) if inner and (tier != "quick" or inner in ("attr", "cmeth")) else (False,)):
          # shared: the nested class is named like a module-level class that is defined first and used after
          nname = "Meta" if shared else "In"
          body = pre
          if shared:
            body += "class Meta:\n  z = 'module-level'\n"
          body += head
          uses = []
          for k in outer:
            body += _MEMBER[k][0]
            uses.append(_MEMBER[k][1].replace("{O}", "Out"))
          if inner:
            body += "  class %s:\n" % nname + "".join("  " + ln + "\n" for ln in _MEMBER[inner][0].rstrip("\n").split("\n"))
            uses.append(_MEMBER[inner][1].replace("{O}", "Out." + nname))
            uses.append("Out.%s" % nname)
          if not outer and not inner:
            body += "  pass\n"
          if shared:
            body += "def describe(m: Meta, n: Out.Meta):\n  return m\n"
            uses += ["Meta()", "describe(Meta(), Out.Meta())"]
          uses.append("Out")
          body += "".join("u%d = %s\n" % (i, u) for i, u in enumerate(uses))
          yield "cls:%s/%s/%s%s" % (ok, "+".join(outer) or "-", inner or "-", "/shared-name" if shared else ""), body


def programs(tier):
  """List of (id, source)."""
  out = list(class_shapes(tier))
  prods = [p[0] for p in PRODUCERS]
  core_p = [p[0] for p in PRODUCERS if p[1]]
  cons = [c[0] for c in CONSUMERS]
  core_c = [c[0] for c in CONSUMERS if c[1]]
  for p in prods:
    if _P[p][2]:
      out.append(producer_alone(p))
  for c in cons:
    for p in prods:
      for vi in range(len(_P[p][3])):
        if tier == "quick" and not (_C[c][1] and (_P[p][1] or vi == 0)) and not (_P[p][1] and vi == 0):
          continue
        out.append(flow(c, p, vi))
  pp = (core_p, core_p) if tier == "quick" else (prods, prods)
  for a, b in itertools.product(*pp):
    if a != b and _P[a][2] and _P[b][2]:
      out.append(pair(a, b))
  return out


if __name__ == "__main__":
  import sys
  import io
  import contextlib
  for tier in ("quick", "thorough"):
    ps = programs(tier)
    print(tier, len(ps), "distinct", len(set(s for _, s in ps)))
  bad = 0
  for i, src in programs("thorough"):
    try:
      with contextlib.redirect_stdout(io.StringIO()):
        ns = {"input": lambda *a: "", "__name__": "m"}
        exec(compile(src, i, "exec"), ns)  # pylint: disable=exec-used
    except BaseException as e:  # pylint: disable=broad-except
      bad += 1
      if bad < 15:
        print("RAISES", i, type(e).__name__, e)
  print("programs that raise under CPython:", bad)
