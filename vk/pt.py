"""Thin wrapper around the real pytype pipeline (pytype.io) used by program-space checks."""

import ast as pyast

from vk import boot


def options(**kw):
  boot.load()
  from pytype import config
  kw.setdefault("python_version", (3, 12))
  input_filename = kw.pop("input_filename", None)
  return config.Options.create(input_filename, **kw)


class Result:
  __slots__ = ("pyi", "errors", "ast", "analysis", "exc")


def errors_of(ctx):
  return [(e.name, e.line, e.message) for e in ctx.errorlog.unique_sorted_errors()]


_SHARED = {}


def shared(**kw):
  """Per-process (options, loader) reused across analyses (quick tiers only)."""
  key = tuple(sorted(kw.items()))
  if key not in _SHARED:
    from pytype import load_pytd
    o = options(**kw)
    _SHARED[key] = (o, load_pytd.create_loader(o))
  return _SHARED[key]


def analyze(src, loader=None, opts=None, share=False, **kw):
  """Runs inference on src; returns Result. Exceptions propagate."""
  boot.load()
  from pytype import io
  if share:
    opts, loader = shared(**kw)
  opts = opts or options(**kw)
  ret, pyi = io.generate_pyi(src, opts, loader)
  r = Result()
  r.pyi = pyi
  r.errors = errors_of(ret.context)
  r.ast = ret.ast
  r.analysis = ret
  r.exc = None
  return r


# ----------------------------------------------------------------- stub reading
# The stub is read back with CPython's own ast module (independent of pytype's
# stub parser) into a small declaration table.


class Stub:

  def __init__(self, text):
    self.text = text
    self.tree = pyast.parse(text)
    self.consts = {}      # name -> annotation node
    self.funcs = {}       # name -> [FunctionDef]
    self.classes = {}     # name -> ClassInfo
    self.aliases = {}     # name -> expr node  (X = Y)
    self.typevars = set()
    self.import_aliases = {}   # local name -> imported name (from m import a as b)
    for st in self.tree.body:
      if isinstance(st, pyast.ImportFrom):
        for a in st.names:
          if a.asname:
            self.import_aliases[a.asname] = a.name
    self._read(self.tree.body, self)

  def _read(self, body, into):
    for st in body:
      if isinstance(st, pyast.AnnAssign) and isinstance(st.target, pyast.Name):
        into.consts[st.target.id] = st.annotation
      elif isinstance(st, (pyast.FunctionDef, pyast.AsyncFunctionDef)):
        into.funcs.setdefault(st.name, []).append(st)
      elif isinstance(st, pyast.ClassDef):
        ci = ClassInfo(st)
        self._read(st.body, ci)
        into.classes[st.name] = ci
      elif isinstance(st, pyast.Assign) and len(st.targets) == 1 and isinstance(st.targets[0], pyast.Name):
        v = st.value
        if isinstance(v, pyast.Call) and getattr(v.func, "id", getattr(v.func, "attr", "")) == "TypeVar":
          self.typevars.add(st.targets[0].id)
        else:
          into.aliases[st.targets[0].id] = v


class ClassInfo:

  def __init__(self, node):
    self.node = node
    self.name = node.name
    self.bases = node.bases
    self.consts = {}
    self.funcs = {}
    self.classes = {}
    self.aliases = {}
